import PocketModel.Store.Iavl
/-!
# Runtime freedoms as explicit oracles (C12)

A Lean function is deterministic by construction, so the model makes every freedom the Go runtime
has an explicit argument (`Oracle`): the order in which a `range` over a map yields its entries
(one permutation per map-range site and call) and the wall clock (`time.Now()`).  Determinism of
block execution is then the statement that the result does not depend on the oracle.

Mirrors the code as it is now (after /repo commits a983e96, 286039a, 5a9379c):
* `x/nodes/types/msg.go:NormalizeRewardDelegators` — ranges over the `RewardDelegators` map, then
  **sorts the normalised slice by address** (`normalizeSorted`),
* `x/nodes/keeper/reward.go:SplitNodeRewards` (+ its callers `blockReward`, `RewardForRelaysPerChain`:
  one `SendCoins`/`mint` per share, in the order of that slice) (`splitNodeRewardsSorted`),
* `x/nodes/keeper/valStateChanges.go:ValidateUnjailMessage` — **block time only** (`unjailFixed`),
* `x/nodes/genesis.go:InitGenesis` — keys of the `SigningInfos` / `MissedBlocks` maps are collected,
  **sorted**, and one new store key per entry is written in that order (`sortedEntries`),
* account creation = a new key in the IAVL tree of the `auth` substore (`PocketModel/Store/Iavl.lean`).

The definitions of the code *before* those commits (`normalize`, `splitNodeRewards`, `unjailAsIs`) are
kept: the historical counterexample theorems of `Props/C12.lean` are about them.
-/
namespace Determinism

/-- The runtime's freedoms. `perm site l` is the order in which the map range at `site` yields the
entries `l` (given here in some canonical order); `now` is `time.Now()`. -/
structure Oracle where
  perm : (site : Nat) → {α : Type} → List α → List α
  now : Int

/-- A legal oracle only reorders. -/
def Oracle.IsPerm (ω : Oracle) : Prop := ∀ (site : Nat) (α : Type) (l : List α), (ω.perm site l).Perm l

/-- The canonical oracle (keeps the given order). -/
def Oracle.id (now : Int) : Oracle := ⟨fun _ _ l => l, now⟩

/-- Code with map-range sites and clock reads, over a state `σ`. -/
inductive Prog (σ : Type) : Type 1 where
  /-- ordinary deterministic code -/
  | pure (f : σ → σ)
  /-- `for k, v := range m { … }`: `entries` lists the map's content, `body` is the whole loop as a
  function of the iteration order -/
  | range (site : Nat) {α : Type} (entries : σ → List α) (body : List α → σ → σ)
  /-- code that reads `time.Now()` -/
  | clock (f : Int → σ → σ)
  | seq (p q : Prog σ)

def Prog.run {σ : Type} (ω : Oracle) : Prog σ → σ → σ
  | .pure f, s => f s
  | .range site entries body, s => body (ω.perm site (entries s)) s
  | .clock f, s => f ω.now s
  | .seq p q, s => q.run ω (p.run ω s)

/-- Every range site computes the same state for every order of its entries, and no clock read
influences the state. -/
def Prog.OracleFree {σ : Type} : Prog σ → Prop
  | .pure _ => True
  | .range _ entries body => ∀ s l, l.Perm (entries s) → body l s = body (entries s) s
  | .clock f => ∀ t t' s, f t s = f t' s
  | .seq p q => p.OracleFree ∧ q.OracleFree

/-- A history: one program per block (BeginBlock, DeliverTx*, EndBlock composed). -/
def runBlocks {σ : Type} (ω : Oracle) (blocks : List (Prog σ)) (s : σ) : List σ :=
  match blocks with
  | [] => []
  | b :: bs => let s' := b.run ω s; s' :: runBlocks ω bs s'

/-! ## Reward delegators -/

variable {A : Type}

/-- `NormalizeRewardDelegators`, iterating in the given order: an entry is (`AddressFromHex` result,
share).  Errors: zero share, bad address, running total above 100. -/
def normalizeGo (total : Nat) (acc : List (A × Nat)) : List (Option A × Nat) → Option (List (A × Nat))
  | [] => some acc.reverse
  | (a?, sh) :: rest =>
    if sh = 0 then none
    else match a? with
      | none => none
      | some a => if total + sh > 100 then none else normalizeGo (total + sh) ((a, sh) :: acc) rest

def normalize (es : List (Option A × Nat)) : Option (List (A × Nat)) := normalizeGo 0 [] es

/-- The order-free description of validity. -/
def validDelegators (es : List (Option A × Nat)) : Bool :=
  es.all (fun e => e.2 != 0 && e.1.isSome) && decide ((es.map (·.2)).sum ≤ 100)

/-- `rewards.ToDec().Mul(NewDecWithPrec(share, 2)).TruncateInt()` for positive rewards. -/
def alloc (rewards : Int) (share : Nat) : Int := rewards * share / 100

def isum (l : List Int) : Int := l.foldl (· + ·) 0

/-- The callback invocations of `SplitNodeRewards`, in order, for normalised delegators. -/
def splitPays (rewards : Int) (primary : A) (norm : List (A × Nat)) : List (A × Int) :=
  let pays := norm.filterMap (fun e => if alloc rewards e.2 > 0 then some (e.1, alloc rewards e.2) else none)
  let remains := rewards - isum (norm.map (fun e => alloc rewards e.2))
  if remains > 0 then pays ++ [(primary, remains)] else pays

/-- `SplitNodeRewards` (`none` = error: non-positive rewards or invalid delegators). -/
def splitNodeRewards (rewards : Int) (primary : A) (es : List (Option A × Nat)) : Option (List (A × Int)) :=
  if rewards ≤ 0 then none else (normalize es).map (splitPays rewards primary)

/-- Ledger level: balances. -/
def credit [DecidableEq A] (bal : A → Int) (p : A × Int) : A → Int := fun x => if x = p.1 then bal x + p.2 else bal x

def applyPays [DecidableEq A] (bal : A → Int) (ps : List (A × Int)) : A → Int := ps.foldl credit bal

/-- Store level: each payment to an account that does not exist yet inserts a new key into the
IAVL tree of the account store (the value is the encoded account). -/
def payTree (ver : Nat) (t : Iavl.Node) (ps : List (Bytes × Bytes)) : Iavl.Node :=
  ps.foldl (fun t p => (Iavl.Node.recursiveSet ver t p.1 p.2).1) t

/-! ## Unjail -/

/-- `ValidateUnjailMessage`, the two time checks as they are (`true` = may be unjailed). -/
def unjailAsIs (now blockTime jailedUntil : Int) : Bool :=
  !(jailedUntil > now) && !(blockTime < jailedUntil)

/-- `ValidateUnjailMessage` as it is now (the block-time comparison alone). -/
def unjailFixed (blockTime jailedUntil : Int) : Bool := !(blockTime < jailedUntil)

/-! ## The code as it is now: sorted before use -/

/-- `sort.Slice(normalized, bytes.Compare(addr_i, addr_j) < 0)`: `le` is the (total) address order. -/
def sortByAddr (le : A → A → Bool) (n : List (A × Nat)) : List (A × Nat) :=
  n.mergeSort (fun a b => le a.1 b.1)

/-- `NormalizeRewardDelegators` as it is now. -/
def normalizeSorted (le : A → A → Bool) (es : List (Option A × Nat)) : Option (List (A × Nat)) :=
  (normalize es).map (sortByAddr le)

/-- `SplitNodeRewards` as it is now: the callbacks in address order. -/
def splitNodeRewardsSorted (le : A → A → Bool) (rewards : Int) (primary : A) (es : List (Option A × Nat)) :
    Option (List (A × Int)) :=
  if rewards ≤ 0 then none else (normalizeSorted le es).map (splitPays rewards primary)

/-- The reward split as a map-range site of a block program: `delegators s` is the content of the
proposer's / servicer's `RewardDelegators` map, `pay` applies the callbacks **at any level of
detail** (balances, or the account tree with its shape). -/
def rewardSite {σ : Type} (site : Nat) (le : A → A → Bool) (rewards : Int) (primary : A)
    (delegators : σ → List (Option A × Nat)) (pay : List (A × Int) → σ → σ) : Prog σ :=
  .range site delegators (fun l s =>
    match splitNodeRewardsSorted le rewards primary l with
    | none => s
    | some ps => pay ps s)

/-- `InitGenesis`: the keys of a genesis map collected and sorted (`sort.Strings`). -/
def sortedEntries {κ β : Type} (le : κ → κ → Bool) (l : List (κ × β)) : List (κ × β) :=
  l.mergeSort (fun a b => le a.1 b.1)

/-- `InitGenesis` over one genesis map as a range site: `write` stores the records in the order given. -/
def genesisSite {σ κ β : Type} (site : Nat) (le : κ → κ → Bool) (entries : σ → List (κ × β))
    (write : List (κ × β) → σ → σ) : Prog σ :=
  .range site entries (fun l s => write (sortedEntries le l) s)

/-- The unjail check as a program node: no clock read at all. -/
def unjailSite {σ : Type} (blockTime jailedUntil : Int) (apply : Bool → σ → σ) : Prog σ :=
  .pure (apply (unjailFixed blockTime jailedUntil))

end Determinism
