import PocketModel.Basic.Proto
import PocketModel.Ledger.Nodes
import PocketModel.Ledger.NodesSpec
/-!
# Line-protocol driver shared by C19, C21, C22, C23, C24, C25 (`harness/cmd/nodesdrive`)

Every trace line carries the implementation's x/nodes state **after** the phase it describes
(decoded raw store prefixes 0x21/0x22/0x23/0x31/0x41/0x43/0x11/0x12, pool, supply, balances,
parameters).  The driver

* runs the model transition from the *previous dumped state* and compares (`DIFF`), and
* evaluates the executable specification of the selected property (`Nodes.Spec`, plus the
  transition-level rules below) on the implementation's own states (`PROPFAIL <sig>`),

then re-bases on the dumped state.  Lines:

```
genesis <id> <poolAddr> <t>                                   => upd=… STATE
begin <h> <t> <proposer> <addr:power:signed;…> <addr:power:height:time;…> => STATE
tx stake <h> <signer> <addr> <pk> <amount> <chains> <url> <output> <delegators> <fee> => <code> <feeTaken> STATE
tx unstake <h> <addr> <signer> <fee>                          => <code> <feeTaken> STATE
tx unjail <h> <t> <now> <addr> <signer> <fee>                 => <code> <feeTaken> STATE
tx param <h> <key> <value> <signer> <fee>                     => <code> <feeTaken> STATE
tx send <h> <from> <to> <amount> <fee>                        => <code> <feeTaken> STATE
inj slash <h> <addr> <amount> | inj burnchal <h> <addr> <n> | inj reward <h> <addr> <relays> => STATE
end <h> <t>                                                   => upd=… STATE
lookup <h> <chain>                                            => <addr;…>   (GetValidatorsByChain on the end-of-block state)
```
-/
namespace NodesDriver
open Nodes

/-! ## Parsing -/

def listOf (s : String) (sep : String) : List String := if s = "-" then [] else s.splitOn sep

def pInt (s : String) : Option Int := s.toInt?
def pB (s : String) : Option Bytes := Bytes.parse s

def pStatus (s : String) : Option Status :=
  if s = "0" then some .unstaked else if s = "1" then some .unstaking else if s = "2" then some .staked else none

def pDelegators (s : String) : Option (List (Bytes × Nat)) :=
  (listOf s ";").mapM fun e => match e.splitOn ":" with
    | [a, n] => match n.toNat? with
      | some k => some (Bytes.ofString a, k)
      | none => none
    | _ => none

def pVal (fs : List String) : Option Val :=
  match fs with
  | [a, pk, j, st, ch, url, tok, un, out, del] => do
    pure { addr := ← pB a, pk := ← pB pk, jailed := j = "1", status := ← pStatus st,
           chains := ← (listOf ch ";").mapM pB, url := ← pB url, tokens := ← pInt tok, unstTime := ← pInt un,
           output := ← pB out, delegators := ← pDelegators del }
  | _ => none

def pParams (fs : List String) : Option Params :=
  match fs.mapM pInt with
  | some [a, b, c, d, e, f, g, h, i, j, k, l, m, n] => some ⟨a, b, c, d, e, f, g, h, i, j, k, l, m, n⟩
  | _ => none

structure Parsed where
  st : State := {}
  anomalies : List String := []
  bad : List String := []

/-- one `key=value` word of a state dump -/
def parseWord (p : Parsed) (w : String) : Parsed :=
  match w.splitOn "=" with
  | [k, v] =>
    let fs := v.splitOn ","
    let s := p.st
    let fail : Parsed := { p with bad := p.bad ++ [w] }
    match k with
    | "P" => match pParams fs with
      | some x => { p with st := { s with params := x } }
      | none => fail
    | "pool" => match pInt v with
      | some x => { p with st := { s with pool := x } }
      | none => fail
    | "sup" => match pInt v with
      | some x => { p with st := { s with supply := x } }
      | none => fail
    | "tp" => match pInt v with
      | some x => { p with st := { s with prevTotal := x } }
      | none => fail
    | "v" => match pVal fs with
      | some x => { p with st := { s with vals := s.vals ++ [(x.addr, x)] } }
      | none => fail
    | "i23" => match fs with
      | [pw, a] => match pInt pw, pB a with
        | some pw, some a => { p with st := { s with stakedIdx := s.stakedIdx ++ [(pw, a)] } }
        | _, _ => fail
      | _ => fail
    | "i22" => match fs with
      | [c, a] => match pB c, pB a with
        | some c, some a => { p with st := { s with chainIdx := s.chainIdx ++ [(c, a)] } }
        | _, _ => fail
      | _ => fail
    | "i41" => match fs with
      | [t, l] => match pInt t, (listOf l ";").mapM pB with
        | some t, some l => { p with st := { s with unstQ := s.unstQ ++ [(t, l)] } }
        | _, _ => fail
      | _ => fail
    | "i43" => match pB v with
      | some a => { p with st := { s with waiting := s.waiting ++ [a] } }
      | none => fail
    | "i31" => match fs with
      | [a, pw] => match pB a, pInt pw with
        | some a, some pw => { p with st := { s with prevPower := s.prevPower ++ [(a, pw)] } }
        | _, _ => fail
      | _ => fail
    | "si" => match fs with
      | [a, sh, ix, ju, mi, jb] => match pB a, [sh, ix, ju, mi, jb].mapM pInt with
        | some a, some [sh, ix, ju, mi, jb] => { p with st := { s with signInfo := s.signInfo ++ [(a, ⟨sh, ix, ju, mi, jb⟩)] } }
        | _, _ => fail
      | _ => fail
    | "mb" => match fs with
      | [a, i] => match pB a, pInt i with
        | some a, some i => { p with st := { s with missedBits := s.missedBits ++ [(a, i)] } }
        | _, _ => fail
      | _ => fail
    | "b" => match fs with
      | [a, x] => match pB a, pInt x with
        | some a, some x => { p with st := { s with bal := s.bal ++ [(a, x)] } }
        | _, _ => fail
      | _ => fail
    | _ => if k.endsWith "x" || k = "v21k" then { p with anomalies := p.anomalies ++ [w] } else fail
  | _ => { p with bad := p.bad ++ [w] }

def parseState (ws : List String) : Parsed := ws.foldl parseWord {}

def pUpdates (w : String) : Option (List (Bytes × Int)) :=
  match w.splitOn "=" with
  | ["upd", v] => (listOf v ";").mapM fun e => match e.splitOn ":" with
    | [pk, pw] => do pure (← pB pk, ← pInt pw)
    | _ => none
  | _ => none

def pVotes (w : String) : Option (List Vote) :=
  (listOf w ";").mapM fun e => match e.splitOn ":" with
    | [a, pw, sg] => do pure ⟨← pB a, ← pInt pw, sg = "1"⟩
    | _ => none

def pEvidence (w : String) : Option (List Evidence) :=
  (listOf w ";").mapM fun e => match e.splitOn ":" with
    | [a, pw, h, t] => do pure ⟨← pB a, ← pInt pw, ← pInt h, ← pInt t⟩
    | _ => none

/-! ## Canonical rendering (for the comparison model ↔ implementation) -/

def rB (b : Bytes) : String := Bytes.render b
def rL (l : List String) (sep : String) : String := if l.isEmpty then "-" else sep.intercalate l

def rVal (v : Val) : String :=
  let st := match v.status with | .unstaked => "0" | .unstaking => "1" | .staked => "2"
  s!"v={rB v.addr},{rB v.pk},{if v.jailed then 1 else 0},{st},{rL (v.chains.map rB) ";"},{rB v.url},{v.tokens},{v.unstTime},{rB v.output},{rL (v.delegators.map fun d => s!"{String.fromUTF8! ⟨d.1.toArray⟩}:{d.2}") ";"}"

def rParams (p : Params) : String :=
  s!"P={p.unstakingTime},{p.maxValidators},{p.minStake},{p.blocksPerSession},{p.window},{p.minSigned},{p.downtimeJail},{p.slashDowntime},{p.slashDoubleSign},{p.maxEvidenceAge},{p.maxJailedBlocks},{p.maxChains},{p.floorMult},{p.ceiling}"

def sortS (l : List String) : List String := (l.toArray.qsort (· < ·)).toList

def dedupS : List String → List String
  | a :: b :: t => if a = b then dedupS (b :: t) else a :: dedupS (b :: t)
  | l => l

/-- the comparable content of a state as a sorted list of words -/
def canon (s : State) (withBal withSup : Bool) : List String :=
  let ws :=
    [rParams s.params, s!"pool={s.pool}", s!"tp={s.prevTotal}"] ++
    (if withSup then [s!"sup={s.supply}"] else []) ++
    s.vals.map (fun p => rVal p.2) ++
    s.stakedIdx.map (fun e => s!"i23={e.1},{rB e.2}") ++
    s.chainIdx.map (fun e => s!"i22={rB e.1},{rB e.2}") ++
    s.unstQ.map (fun e => s!"i41={e.1},{rL (e.2.map rB) ";"}") ++
    s.waiting.map (fun a => s!"i43={rB a}") ++
    s.prevPower.map (fun e => s!"i31={rB e.1},{e.2}") ++
    s.signInfo.map (fun e => s!"si={rB e.1},{e.2.startHeight},{e.2.index},{e.2.jailedUntil},{e.2.missed},{e.2.jailedBlocks}") ++
    s.missedBits.map (fun e => s!"mb={rB e.1},{e.2}") ++
    (if withBal then (s.bal.filter (fun e => e.2 ≠ 0)).map (fun e => s!"b={rB e.1},{e.2}") else [])
  dedupS (sortS ws)

def shorten (w : String) : String := if w.length > 150 then (w.take 150).toString ++ "…" else w

def diffStates (model impl : State) (withBal withSup : Bool) : Option String :=
  let m := canon model withBal withSup
  let i := canon impl withBal withSup
  if m = i then none
  else
    let onlyM := (m.filter (fun w => !i.contains w)).take 4
    let onlyI := (i.filter (fun w => !m.contains w)).take 4
    some s!"model-only=[{" ".intercalate (onlyM.map shorten)}] impl-only=[{" ".intercalate (onlyI.map shorten)}]"

/-! ## Driver state -/

structure St where
  prop : String
  cur : Option State := none
  poolAddr : Addr := []
  /-- coins known to have been sent to the pool's address by plain transfers -/
  surplus : Int := 0
  /-- the history started from a genesis whose pool already misses the unstaking validators' tokens: the pool
  equation is reported once (known finding) and not monitored for the rest of this history -/
  poolOff : Bool := false
  /-- C24 ghost: addresses whose waiting-to-unstake entry was seen without a record (its node was paid out and
  deleted) and has neither left the set nor been renewed by an accepted begin-unstake request since -/
  stale : List Addr := []
  /-- C25 ghost: end of the downtime jail period (block time of the jailing block + DowntimeJailDuration) of the
  nodes jailed for downtime, recorded from the jail event itself (votes + counters), not read back from the
  implementation's signing info; dropped when the node is unjailed or its record disappears -/
  jailEnd : List (Addr × Int) := []
  /-- … and those of them whose record was rewritten by an accepted edit-stake since (the edit deletes / renews the
  signing info, `JailedUntil` included) -/
  jailEdited : List Addr := []
  deriving Inhabited

def init (prop : String) : St := { prop := prop }

def resCode : Res → String
  | .ok => "0/"
  | .err 10 => "10/sdk"
  | .err c => s!"{c}/pos"

/-- apply reported updates (by public key) to the ghost consensus set -/
def applyImplUpdates (pre post : State) (tm : List (Addr × Int)) (us : List (Bytes × Int)) : List (Addr × Int) × List String :=
  us.foldl (fun (acc : List (Addr × Int) × List String) (u : Bytes × Int) =>
    let addr? := ((pre.vals ++ post.vals).find? fun p => p.2.pk = u.1).map (·.1)
    match addr? with
    | none => (acc.1, acc.2 ++ [s!"update for unknown key {rB u.1}"])
    | some a => (if u.2 = 0 then adel acc.1 a else aset acc.1 a u.2, acc.2)) (tm, [])

/-! ## Property rules evaluated on the implementation's states -/

abbrev Fail := String × String

def fails (b : Bool) (sig detail : String) : List Fail := if b then [] else [(sig, detail)]

/-- C19 -/
def checkC19 (σ : St) (post : State) : List Fail :=
  fails (σ.poolOff || Spec.poolOk post σ.surplus) "pool-ne-sum-staked" s!"pool={post.pool} sum={Spec.sumBonded post.vals} known-surplus={σ.surplus}"

/-- C21 -/
def checkC21 (post : State) (anomalies : List String) : List Fail :=
  fails anomalies.isEmpty "index-key-malformed" (" ".intercalate anomalies) ++
  fails (Spec.stakedIdxSound post) "staked-index-stale-entry" "" ++
  fails (Spec.stakedIdxComplete post) "staked-index-missing-entry" "" ++
  fails (Spec.chainIdxSound post) "chain-index-stale-entry" "" ++
  fails (Spec.chainIdxComplete post) "chain-index-missing" "" ++
  fails (Spec.queueSound post) "unstaking-queue-dangling" "" ++
  fails (Spec.queueComplete post) "unstaking-queue-missing" "" ++
  fails (Spec.waitingSound post) "waiting-entry-without-record" ""

/-- C22 (end of block / genesis; `post.tmSet` already holds the reported updates) -/
def checkC22 (h : Int) (pre post : State) (us : List (Bytes × Int)) : List Fail :=
  let top := Spec.topN post
  fails (Spec.tmSetOk post) "valupdates-not-topN" s!"set={post.tmSet.map fun p => (rB p.1, p.2)} top={top.map fun p => (rB p.1, p.2)}" ++
  fails (Spec.prevPowerOk post) "prev-power-ne-topN" "" ++
  fails (h < splitHeight || us.all fun u =>
      match ((pre.vals ++ post.vals).find? fun p => p.2.pk = u.1).map (·.1) with
      | some a => (aget top a).isSome || u.2 == 0
      | none => true) "leaver-nonzero-power" "" ++
  fails (us.all fun u =>
      match ((pre.vals ++ post.vals).find? fun p => p.2.pk = u.1).map (·.1) with
      | some a => u.2 != 0 || (aget pre.tmSet a).isSome
      | none => true) "zero-update-for-nonmember" ""

def balDelta (pre post : State) (a : Addr) : Int := balOf post a - balOf pre a

/-- C24 -/
def checkC24 (kind : String) (h t : Int) (pre post : State) : List Fail :=
  let isEnd := kind = "end"
  let sessionEnd := isEnd && (h % pre.params.blocksPerSession == 0)
  -- staked → unstaking only at a session end, for nodes that were asked or forced to leave
  let moved := pre.vals.filter fun p => p.2.status = .staked ∧ ((aget post.vals p.1).map (·.status)) = some .unstaking
  let mayLeave (p : Addr × Val) : Bool :=
    sessionEnd && (p.1 ∈ pre.waiting ||
      (p.2.jailed && ((aget pre.signInfo p.1).map (·.jailedBlocks)).getD 0 + 1 > pre.params.maxJailedBlocks))
  let movedOk := moved.all mayLeave
  -- records disappear only when their unstaking is due, in an end-block
  let gone := pre.vals.filter fun p => (aget post.vals p.1).isNone
  -- (a staked node released in this very end-block is due at once when the unstaking time is zero)
  let dueNow (p : Addr × Val) : Bool :=
    (p.2.status = .unstaking && p.2.unstTime ≤ t) ||
    (p.2.status = .staked && mayLeave p && (if p.2.unstTime = zeroTime then pre.params.unstakingTime ≤ 0 else p.2.unstTime ≤ t))
  let goneOk := gone.all fun p => isEnd && dueNow p
  let goneEarly := gone.any fun p => p.2.status = .unstaking && p.2.unstTime > t
  -- a staked record never disappears otherwise
  let stakedGone := gone.any fun p => p.2.status = .staked && !dueNow p
  -- payouts: the balance of every address grows by exactly the stakes returned to it
  let addrs := ((pre.bal ++ post.bal).map (·.1)).eraseDups
  let paid (a : Addr) : Int := ((gone.filter fun p => p.2.outAddr = a).map (·.2.tokens)).sum
  let payOk := !isEnd || addrs.all fun a => balDelta pre post a == paid a
  let poolPaid := !isEnd || pre.pool - post.pool == (gone.map (·.2.tokens)).sum
  fails movedOk "left-staked-outside-session-end" s!"{moved.map fun p => rB p.1}" ++
  fails (!goneEarly) "stake-paid-early" s!"{gone.map fun p => rB p.1}" ++
  fails (!stakedGone) "staked-record-deleted" "" ++
  fails goneOk "record-deleted-not-due" s!"{gone.map fun p => rB p.1}" ++
  fails payOk "stake-payout-mismatch" s!"{addrs.filterMap fun a => if balDelta pre post a == paid a then none else some (rB a, balDelta pre post a, paid a)}" ++
  fails poolPaid "stake-payout-pool-mismatch" s!"pool {pre.pool} -> {post.pool}" ++
  fails (!isEnd || Spec.noOverdue post t) "stake-overdue-not-paid" ""

/-- C24, history level: a staked record that leaves the staked state at a session end although the only reason is
a waiting entry left behind by an earlier, already paid-out record of the same address (`stale`), i.e. the
current record was neither asked (accepted begin-unstake since) nor forced (jailed with a stake below the minimum,
or jailed for too long) to leave -/
def checkStale (kind : String) (h : Int) (stale : List Addr) (pre post : State) : List Fail :=
  let sessionEnd := kind = "end" && (h % pre.params.blocksPerSession == 0)
  let forced (p : Addr × Val) : Bool :=
    p.2.jailed && (decide (p.2.tokens < pre.params.minStake) ||
      decide (((aget pre.signInfo p.1).map (·.jailedBlocks)).getD 0 + 1 > pre.params.maxJailedBlocks))
  let left := pre.vals.filter fun p => p.2.status = .staked ∧ ((aget post.vals p.1).map (·.status)) ≠ some .staked
  let bad := left.filter fun p => sessionEnd && p.1 ∈ stale && !forced p
  fails bad.isEmpty "unstaked-by-stale-waiting-entry" s!"{bad.map fun p => rB p.1}"

/-- tokens removed from records that exist before and after -/
def burnedOf (pre post : State) : List (Addr × Int) :=
  pre.vals.filterMap fun p => match aget post.vals p.1 with
    | some v => if v.tokens < p.2.tokens then some (p.1, p.2.tokens - v.tokens) else none
    | none => none

/-- C25 (state rules; the unjail and slash-request rules are in `step`) -/
def checkC25 (kind : String) (pre post : State) : List Fail :=
  let burned := burnedOf pre post
  let total := (burned.map (·.2)).sum
  let isEnd := kind = "end"
  fails (kind = "reward" || pre.supply - post.supply == total) "slash-burn-mismatch" s!"removed={total} supply {pre.supply} -> {post.supply}" ++
  fails (!(kind = "slash" || kind = "begin") || pre.pool - post.pool == total) "slash-pool-mismatch" s!"removed={total} pool {pre.pool} -> {post.pool}" ++
  fails (post.vals.all fun p => p.2.tokens ≥ 0) "negative-stake" "" ++
  fails (post.signInfo.all fun p => p.2.missed ≥ 0) "missed-counter-negative"
    s!"{(post.signInfo.filter fun p => p.2.missed < 0).map fun p => (rB p.1, p.2.missed)}" ++
  fails (burned.all fun b => match aget post.vals b.1 with
      | some v => v.tokens ≥ post.params.minStake || (v.jailed && b.1 ∈ post.waiting)
      | none => true) "below-min-not-jailed-and-queued" s!"{burned.map fun b => rB b.1}" ++
  fails (!isEnd || Spec.noJailedInSet post) "jailed-in-consensus-set" "" ++
  fails (kind = "unjail" || pre.vals.all fun p => !p.2.jailed || ((aget post.vals p.1).map (·.jailed)).getD true) "unjailed-without-message" ""

/-! ## The step function -/

def withFee (s : State) (payer : Addr) (fee : Int) : State := { s with bal := aset s.bal payer (balOf s payer - fee) }

structure Outcome where
  model : State
  modelNote : String := ""     -- differences not visible in the state (result code, updates)
  withBal : Bool := true
  withSup : Bool := true
  extra : List Fail := []      -- transition-level property failures (with their property id prefix)
  extraProp : String := ""
  surplus : Int := 0
  justified : List Addr := []  -- addresses of an accepted begin-unstake request (C24 ghost)
  jailedNow : List (Addr × Int) := []  -- downtime jails of this line with the end of their period (C25 ghost)
  unjailed : List Addr := []   -- address of an accepted unjail (C25 ghost)
  edited : List Addr := []     -- address of an accepted stake message (C25 ghost)

def joinFails (l : List Fail) : Option Fail := l.head?

/-- judge one line: `pre` = previous dumped state, `post` = dumped state of this line -/
def judge (σ : St) (kind : String) (h t : Int) (pre : State) (pp : Parsed) (o : Outcome) (us : List (Bytes × Int)) : St × Verdict :=
  let post0 := pp.st
  let (tm, unknown) := applyImplUpdates pre post0 pre.tmSet us
  let post := { post0 with tmSet := tm }
  let stale' := (((σ.stale.filter fun a => !o.justified.contains a) ++
      post.waiting.filter fun a => (aget post.vals a).isNone).eraseDups).filter fun a => post.waiting.contains a
  let je0 := o.jailedNow.foldl (fun acc p => aset acc p.1 p.2) σ.jailEnd
  let jailEnd' := je0.filter fun p => !o.unjailed.contains p.1 && (((aget post.vals p.1).map (·.jailed)).getD false)
  let staleN : List Addr := if kind = "genesis" then [] else stale'
  let jailEndN : List (Addr × Int) := if kind = "genesis" then [] else jailEnd'
  let jailEditedN : List Addr := (σ.jailEdited ++ o.edited).filter fun a => (aget jailEndN a).isSome
  let σ' := { σ with cur := some post, surplus := σ.surplus + o.surplus, stale := staleN, jailEnd := jailEndN, jailEdited := jailEditedN }
  if !pp.bad.isEmpty then (σ', .bad s!"unparsed words {pp.bad.take 3}") else
  let pf : List Fail :=
    (if o.extraProp = σ.prop then o.extra else []) ++
    (match σ.prop with
     | "C19" => checkC19 σ' post
     | "C21" => checkC21 post pp.anomalies
     | "C22" => if kind = "end" || kind = "genesis" then checkC22 h pre post us ++ fails unknown.isEmpty "update-unknown-key" s!"{unknown}" else []
     | "C24" => if kind = "genesis" then [] else checkC24 kind h t pre post ++ checkStale kind h σ.stale pre post
     | "C25" => if kind = "genesis" then [] else checkC25 kind pre post
     | _ => [])
  match pf.head? with
  | some (sig, d) => (σ', .propfail sig s!"{kind} h={h} {d}")
  | none =>
    if o.modelNote ≠ "" then (σ', .diff s!"{kind} h={h} {o.modelNote}")
    else match diffStates { o.model with tmSet := [] } { post with tmSet := [] } o.withBal o.withSup with
      | some d => (σ', .diff s!"{kind} h={h} {d}")
      | none => (σ', .ok)

def updatesNote (model : List Update) (impl : List (Bytes × Int)) : String :=
  let m := model.map fun u => (u.pk, u.power)
  if m = impl then "" else s!"updates model={m.map fun p => (rB p.1, p.2)} impl={impl.map fun p => (rB p.1, p.2)}"

def step (σ : St) (pre post : List String) : St × Verdict :=
  match pre with
  | ["genesis", _, pa, t] =>
    match post with
    | u :: ws =>
      match pUpdates u, pB pa, pInt t with
      | some us, some pa, some t =>
        let pp := parseState ws
        -- the genesis of a history: nothing to compare with, the state rules apply
        let σ := { σ with cur := none, poolAddr := pa, surplus := 0, poolOff := false }
        -- C19: InitGenesis leaves the tokens of unstaking genesis validators out of the pool
        let unst := ((pp.st.vals.filter fun p => p.2.status = .unstaking).map (·.2.tokens)).sum
        let deficit := Spec.sumBonded pp.st.vals - pp.st.pool
        let known : Bool := decide (deficit ≠ 0) && decide (deficit = unst)
        let sur : Int := if known then 0 - deficit else 0
        let σ := { σ with poolOff := known }
        let ex : List Fail := if known then [("genesis-unstaking-not-in-pool", s!"pool={pp.st.pool} staked+unstaking={Spec.sumBonded pp.st.vals} unstaking={unst}")] else []
        judge σ "genesis" 1 t {} pp { model := pp.st, extraProp := "C19", surplus := sur, extra := ex } us
      | _, _, _ => (σ, .bad "genesis args")
    | _ => (σ, .bad "genesis result")
  | _ =>
  match σ.cur with
  | none => (σ, .bad "no genesis line yet")
  | some cur =>
  match pre with
  | ["begin", h, t, _, vs, es] =>
    match pInt h, pInt t, pVotes vs, pEvidence es with
    | some h, some t, some vs, some es =>
      let m := beginBlock cur h t vs es
      -- C25: downtime rule on the implementation's own states
      let pp := parseState post
      let p := cur.params
      let extra : List Fail := vs.flatMap fun v =>
        match aget cur.vals v.addr, aget cur.signInfo v.addr with
        | some r, some si =>
          let win := h % p.window == 0
          let si := if win then si.reset else si
          let prevBit := !win && missedAt cur v.addr si.index
          let missed := if !prevBit && !v.signed then si.missed + 1 else if prevBit && v.signed then si.missed - 1 else si.missed
          if missed > p.window - p.minSigned && r.status ≠ .unstaked then
            fails (((aget pp.st.vals v.addr).map (·.jailed)).getD true) "missed-exceeds-not-jailed" (rB v.addr) ++
            fails (((aget pp.st.signInfo v.addr).map (fun x => x.missed == 0 && x.jailedUntil == t + p.downtimeJail)).getD true) "jail-period-not-set" (rB v.addr)
          else []
        | _, _ => []
      -- C25 ghost: the downtime jails of this block (same rule, from the votes and the previous counters)
      let jn : List (Addr × Int) := vs.filterMap fun v =>
        match aget cur.vals v.addr, aget cur.signInfo v.addr with
        | some r, some si =>
          let win := h % p.window == 0
          let si := if win then si.reset else si
          let prevBit := !win && missedAt cur v.addr si.index
          let missed := if !prevBit && !v.signed then si.missed + 1 else if prevBit && v.signed then si.missed - 1 else si.missed
          if missed > p.window - p.minSigned && r.status ≠ .unstaked then some (v.addr, t + p.downtimeJail) else none
        | _, _ => none
      -- (the stake-weight parameters are read through feature-gated defaults: their dumped value is an input)
      judge σ "begin" h t cur pp { model := { m with params := pp.st.params }, withBal := false, extra := extra, extraProp := "C25", jailedNow := jn } []
    | _, _, _, _ => (σ, .bad "begin args")
  | ["end", h, t] =>
    match pInt h, pInt t, post with
    | some h, some t, u :: ws =>
      match pUpdates u with
      | some us =>
        let (m, mu) := endBlock cur h t
        judge σ "end" h t cur (parseState ws) { model := m, modelNote := updatesNote mu us } us
      | none => (σ, .bad "end updates")
    | _, _, _ => (σ, .bad "end args")
  | ["lookup", h, c] =>
    match pInt h, pB c, post with
    | some h, some c, [r] =>
      match (listOf r ";").mapM pB with
      | some impl =>
        let srt (l : List Bytes) : List String := sortS (l.map rB)
        let spec := (cur.vals.filter fun p => p.2.status = .staked ∧ c ∈ p.2.chains).map (·.1)
        let model := validatorsByChain cur c
        let σ' := σ
        if σ.prop = "C21" && srt impl ≠ srt spec then
          -- the known finding is exactly: the result is the prefix scan, the entries filed under `c` itself are the
          -- staked nodes declaring `c`, and the difference comes from keys of identifiers of another length
          let sameLen := (cur.chainIdx.filter fun e => e.1 = c).map (·.2)
          let sig := if srt impl = srt model && srt sameLen = srt spec then "chain-lookup-prefix-collision" else "chain-lookup-wrong"
          (σ', .propfail sig s!"lookup h={h} chain={rB c} impl={srt impl} staked-nodes-of-chain={srt spec}")
        else if srt impl ≠ srt model then (σ', .diff s!"lookup h={h} chain={rB c} impl={srt impl} model={srt model}")
        else (σ', .ok)
      | none => (σ, .bad "lookup result")
    | _, _, _ => (σ, .bad "lookup args")
  | ["inj", "slash", h, a, amt] =>
    match pInt h, pB a, pInt amt with
    | some h, some a, some amt =>
      let pp := parseState post
      let m := simpleSlash cur a amt
      -- C25: the burn is bounded by the request and by the stake, and is exactly what the record lost
      let extra : List Fail := match aget cur.vals a with
        | some r =>
          let lost := match aget pp.st.vals a with
            | some v => r.tokens - v.tokens
            | none => r.tokens
          let want := if amt ≤ 0 ∨ r.status = .unstaked then 0 else burnAmount amt r.tokens
          fails (lost == want && cur.supply - pp.st.supply == want) "slash-not-bounded" s!"{rB a} requested={amt} stake={r.tokens} removed={lost} burned={cur.supply - pp.st.supply}"
        | none => fails (cur.supply == pp.st.supply) "slash-not-bounded" "burn without record"
      judge σ "slash" h 0 cur pp { model := m, extra := extra, extraProp := "C25" } []
    | _, _, _ => (σ, .bad "slash args")
  | ["inj", "burnchal", h, a, _] =>
    match pInt h, pB a with
    | some h, some a =>
      let pp := parseState post
      -- the requested amount is computed by the PIP-22 formula (C27); it is recovered from the outcome
      let req := match aget cur.vals a, aget pp.st.vals a with
        | some r, some v => r.tokens - v.tokens
        | _, _ => 0
      judge σ "slash" h 0 cur pp { model := simpleSlash cur a req } []
    | _, _ => (σ, .bad "burnchal args")
  | ["inj", "reward", h, _, _] =>
    match pInt h with
    | some h => judge σ "reward" h 0 cur (parseState post) { model := cur, withBal := false, withSup := false } []
    | none => (σ, .bad "reward args")
  | "tx" :: kind :: args =>
    match post with
    | code :: taken :: ws =>
      let pp := parseState ws
      let charged := taken = "1"
      let unchanged (h : Int) (k : String) : St × Verdict := judge σ k h 0 cur pp { model := cur } []
      match kind, args with
      | "stake", [h, sg, a, pk, amt, ch, url, out, del, fee] =>
        match pInt h, pB sg, pB a, pB pk, pInt amt, (listOf ch ";").mapM pB, pB url, pB out, pDelegators del, pInt fee with
        | some h, some sg, some a, some pk, some amt, some ch, some url, some out, some del, some fee =>
          let msg : StakeMsg := ⟨a, pk, ch, amt, url, out, del⟩
          let curRec := aget cur.vals a
          let signers := [a, out] ++ (match curRec with | some r => [r.outAddr] | none => [])
          let anteOk := delegatorsOk del && decide (amt > 0) && !ch.isEmpty && signers.contains sg && decide (balOf cur sg ≥ fee)
          if !charged then
            if anteOk then (({ σ with cur := some pp.st }), .diff s!"stake h={h}: model expects the ante handler to pass, implementation answered {code} without charging the fee")
            else unchanged h "stake"
          else
            let s1 := withFee cur sg fee
            let (m, r) := handleStake s1 h msg sg
            let note := (if anteOk then "" else "model expects an ante rejection; ") ++ (if resCode r = code then "" else s!"code model={resCode r} impl={code}")
            -- C23 on the implementation's own records
            let extra : List Fail := match curRec, aget pp.st.vals a with
              | some c, some n => if code = "0/" ∧ c.status = .staked then (Spec.editOk c n sg (decide (a ∈ cur.waiting))).map fun s => (s, s!"{rB a} signer={rB sg}") else []
              | _, _ => []
            let ed : List Addr := if code = "0/" then [a] else []
            judge σ "stake" h 0 cur pp { model := m, modelNote := note, extra := extra, extraProp := "C23", edited := ed } []
        | _, _, _, _, _, _, _, _, _, _ => (σ, .bad "stake args")
      | "unstake", [h, a, sg, fee] =>
        match pInt h, pB a, pB sg, pInt fee with
        | some h, some a, some sg, some fee =>
          if !charged then unchanged h "unstake" else
          let (m, r) := handleBeginUnstake (withFee cur sg fee) a sg
          let note := if resCode r = code then "" else s!"code model={resCode r} impl={code}"
          let just : List Addr := if code = "0/" then [a] else []
          judge σ "unstake" h 0 cur pp { model := m, modelNote := note, justified := just } []
        | _, _, _, _ => (σ, .bad "unstake args")
      | "unjail", [h, t, _now, a, sg, fee] =>
        -- (`_now` = wall clock of the harness when the transaction was delivered: informational only — since /repo 286039a
        -- the result must not depend on it)
        match pInt h, pInt t, pB a, pB sg, pInt fee with
        | some h, some t, some a, some sg, some fee =>
          if !charged then unchanged h "unjail" else
          let (m, r) := handleUnjail (withFee cur sg fee) h t a sg
          -- C25: an accepted unjail had an authorised signer, enough stake, a jailed node and an elapsed jail period …
          let requires : List Fail := if code ≠ "0/" then [] else match aget cur.vals a with
            | some v =>
              let ju := ((aget cur.signInfo a).map (·.jailedUntil))
              fails (signerOk v.addr v.output sg && decide (v.tokens ≥ cur.params.minStake) && v.jailed &&
                     (match ju with | some j => decide (t ≥ j) | none => false)) "unjail-without-requirements"
                s!"{rB a} signer={rB sg} tokens={v.tokens} min={cur.params.minStake} jailed={v.jailed} t={t} jailedUntil={ju}"
            | none => [("unjail-without-requirements", "no record")]
          -- … and a message meeting all of them is accepted: nothing but the store and the block time decides
          let suff : List Fail :=
            fails (!(r == .ok && code == "104/pos")) "unjail-depends-on-wall-clock"
              s!"{rB a} signer={rB sg} block time {t} ≥ jailedUntil {((aget cur.signInfo a).map (·.jailedUntil))}, all conditions met, answered {code}"
          -- … and not before the end of the downtime jail period recorded when the node was jailed (ghost state)
          let early : List Fail := if code ≠ "0/" then [] else match aget σ.jailEnd a with
            | some j => fails (decide (t ≥ j)) (if σ.jailEdited.contains a then "unjailed-early-after-edit-stake" else "unjailed-before-jail-duration") s!"{rB a} block time {t} < end of the jail period {j} (signing info says {((aget cur.signInfo a).map (·.jailedUntil))})"
            | none => []
          let note := if resCode r = code then "" else s!"code model={resCode r} impl={code}"
          let unj : List Addr := if code = "0/" then [a] else []
          judge σ "unjail" h t cur pp { model := m, modelNote := note, extra := early ++ requires ++ suff, extraProp := "C25", unjailed := unj } []
        | _, _, _, _, _ => (σ, .bad "unjail args")
      | "param", [h, _, _, sg, fee] =>
        match pInt h, pB sg, pInt fee with
        | some h, some sg, some fee =>
          if !charged then unchanged h "param" else
          -- governance is not modelled: the new parameters are taken from the dump, nothing else may change
          judge σ "param" h 0 cur pp { model := { withFee cur sg fee with params := pp.st.params },
                                        modelNote := if code = "0/" then "" else s!"parameter change failed {code}" } []
        | _, _, _ => (σ, .bad "param args")
      | "send", [h, fr, to, amt, fee] =>
        match pInt h, pB fr, pB to, pInt amt, pInt fee with
        | some h, some fr, some to, some amt, some fee =>
          if !charged then unchanged h "send" else
          let s1 := withFee cur fr fee
          let ok := code = "0/"
          let toPool := to = σ.poolAddr
          let m := if !ok then s1 else
            let s2 := { s1 with bal := aset s1.bal fr (balOf s1 fr - amt) }
            if toPool then { s2 with pool := s2.pool + amt } else { s2 with bal := aset s2.bal to (balOf s2 to + amt) }
          let extra : List Fail := if ok && toPool then [("pool-credited-by-send", s!"plain transfer of {amt} to the staking pool address {rB to}")] else []
          judge σ "send" h 0 cur pp { model := m, extra := extra, extraProp := "C19", surplus := if ok && toPool then amt else 0 } []
        | _, _, _, _, _ => (σ, .bad "send args")
      | _, _ => (σ, .bad s!"tx kind {kind}")
    | _ => (σ, .bad "tx result")
  | _ => (σ, .bad "op")

end NodesDriver
