import PocketModel.Basic.Proto
import PocketModel.Ledger.Bank
/-!
# Line-protocol helpers for the bank state (shared by the drivers of C17, C18, C36)

`S=<supply> A=<addr>:<upokt>:<module|->;…` is the dump written by `harness/internal/bankdrv`.
-/
namespace Ledger
namespace BankProto

def parseAcct (s : String) : Option (Addr × Account) :=
  match s.splitOn ":" with
  | [a, b, m] => do
    let ad ← Bytes.parse a
    let bl ← b.toInt?
    pure (ad, { bal := bl, module := if m = "-" then none else some m })
  | _ => none

def parseAccts (s : String) : Option Accounts :=
  if s = "-" then some [] else (s.splitOn ";").mapM parseAcct

/-- `S=… A=…` -/
def parseBank (ws : List String) : Option Bank :=
  match ws with
  | [s, a] =>
    if s.startsWith "S=" && a.startsWith "A=" then do
      let sup ← (s.drop 2).toString.toInt?
      let ac ← parseAccts (a.drop 2).toString
      pure ⟨ac, sup⟩
    else none
  | _ => none

def parseMod (s : String) : Option ModInfo :=
  match s.splitOn ":" with
  | [n, a, mi, bu] => do
    let ad ← Bytes.parse a
    let m ← Proto.parseBool mi
    let b ← Proto.parseBool bu
    pure ⟨n, ad, m, b⟩
  | _ => none

def parseMods (s : String) : Option ModTable := (s.splitOn ";").mapM parseMod

def errName : Option Err → String
  | none => "ok"
  | some .invalidCoins => "invalidCoins"
  | some .insufficient => "insufficient"
  | some .unknownAddress => "unknownAddress"
  | some .moduleCreate => "moduleCreate"
  | some .forbidden => "forbidden"
  | some .internal => "internal"
  | some .panic => "panic"
  | some .badMsg => "badMsg"

/-- Same map: same number of entries and every entry of `a` is read back from `b`. -/
def sameAccts (a b : Accounts) : Bool :=
  a.length == b.length && a.all fun p => b.get p.1 == some p.2

def firstDiff (impl model : Accounts) : String :=
  match impl.find? (fun p => model.get p.1 != some p.2) with
  | some p =>
    let m := match model.get p.1 with
      | some v => s!"{v.bal}/{v.module.getD "-"}"
      | none => "absent"
    s!"addr={Bytes.render p.1} impl={p.2.bal}/{p.2.module.getD "-"} model={m}"
  | none =>
    match model.find? (fun p => impl.get p.1 != some p.2) with
    | some p => s!"addr={Bytes.render p.1} impl=absent model={p.2.bal}"
    | none => s!"lengths impl={impl.length} model={model.length}"

/-- The invariants proved in `Props/C17`, `Props/C18`, evaluated on a dumped state. -/
def invVerdict (b : Bank) (ctxt : String) : Option Verdict :=
  if b.supply ≠ b.accts.total then
    some (.propfail "supply-ne-sum" s!"{ctxt} supply={b.supply} sum={b.accts.total}")
  else if !Bank.nonNegB b then some (.propfail "negative-balance" ctxt)
  else none

end BankProto
end Ledger
