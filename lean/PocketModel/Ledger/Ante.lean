import PocketModel.Num.Coins
/-!
# The ante handler and the DeliverTx pipeline around it — as they are

Mirrors `/repo/x/auth/ante.go` (`NewAnteHandler`, `ValidateTransaction`, `ValidateSignatureDepth`,
`DeductFees`), `/repo/x/auth/keeper/bank.go` (`SendCoins`, `SubtractCoins`, `AddCoins`, `SetCoins`),
`/repo/x/auth/types/fee.go` (`FeeMultipliers.GetFee`), `/repo/baseapp/baseapp.go` (`DeliverTx`,
`runTx`, `EndBlock`: the in-block `transactionCache`) and `/repo/types/indexer.go` (`AddBatch`: which
results Tendermint's indexer service stores).  Used by C14 (authorized signers), C15 (fees) and
C16 (at-most-once).

What is a parameter:

* cryptography — `Scheme`: the public-key type, `addr` (`PublicKey.Address()`), `shape` (multisig
  nesting, for `ValidateSignatureDepth`) and `verify` (`PublicKey.VerifyBytes`);
* the sign document — `SB chainId entropy fee msgSignBytes memo` (`StdSignBytes`);
* the transaction decoder and the tx hash (`Hooks.decode`, `Hooks.hash`);
* the message handlers — `Hooks.handler`, an *arbitrary* function from the state the ante handler
  left behind to a new state and a result: `runTx` runs the handler on the uncached root store, so
  whatever it wrote stays, whether or not it reports an error;
* everything of the chain state the ante handler never touches (`World.rest`).

Feature gates (`NCUST`, `OEDIT`, application transfer, codec-upgrade height, `REDUP`) are explicit
booleans of `Env`; the properties are about the modern rule set (all true), the other branches are
modelled because the code has them.  A Go panic inside `runTx` is recovered into `sdk/1`.
-/
namespace Ledger

abbrev Addr := Bytes

/-- Nesting of a public key: `leaf` = ed25519/secp256k1, `node` = `PublicKeyMultiSignature`. -/
inductive KeyTree where
  | leaf : KeyTree
  | node : List KeyTree → KeyTree
  deriving Repr, Inhabited

mutual
/-- `recSignDepth(count, limit, key)`: the loop over `key.Keys()`; result `(count, ok)`. -/
def recSignDepth (limit : Nat) (count : Nat) : List KeyTree → Nat × Bool
  | [] => (count, true)
  | k :: ks =>
    match recSignKey limit (count + 1) k with
    | (c, false) => (c, false)
    | (c, true) => if c > limit then (c, false) else recSignDepth limit c ks
/-- One iteration body: a nested multisig key recurses, a simple key leaves the count. -/
def recSignKey (limit : Nat) (count : Nat) : KeyTree → Nat × Bool
  | .leaf => (count, true)
  | .node ks => recSignDepth limit count ks
end

/-- `ValidateSignatureDepth(limit, key)` for a multisig key with members `ks`. -/
def validateSignatureDepth (limit : Nat) (ks : List KeyTree) : Bool := (recSignDepth limit 1 ks).2

/-- `PublicKeyMultiSignature.VerifyBytes` after decoding, as a composition of member verdicts:
the number of signatures equals the number of keys, and at every position the signature is
non-empty and verifies under the key at that position (`bits[i]`).  N-of-N, positional. -/
def multisigOk (nKeys nSigs : Nat) (bits : List Bool) : Bool :=
  nSigs == nKeys && bits.length == nKeys && bits.all id

/-- Cryptographic parameters. -/
structure Scheme where
  PK : Type
  addr : PK → Addr
  shape : PK → KeyTree
  verify : PK → Bytes → Bytes → Bool

/-- `sdk.Result` reduced to what the pipeline looks at. -/
structure Result where
  space : String
  code : Nat
  deriving DecidableEq, Repr, Inhabited

namespace Result
def okRes : Result := ⟨"", 0⟩
/-- `Result.IsOK`. -/
def isOK (r : Result) : Bool := r.code == 0
/-- `types/indexer.go`: `Codespace == "auth" && Code < AnteHandlerMaxError` — not indexed. -/
def anteLevel (r : Result) : Bool := r.space == "auth" && r.code < 10
end Result

def errInternal : Result := ⟨"sdk", 1⟩
def errTxDecode : Result := ⟨"sdk", 2⟩
def errUnauthorized : Result := ⟨"sdk", 4⟩
def errInvalidPubKey : Result := ⟨"sdk", 8⟩
def errUnknownAddress : Result := ⟨"sdk", 9⟩
def errInsufficientCoins : Result := ⟨"sdk", 10⟩
def errInvalidCoins : Result := ⟨"sdk", 11⟩
def errSdkInsufficientFee : Result := ⟨"sdk", 14⟩
def errInvalidMemo : Result := ⟨"auth", 1⟩
def errEmptyPublicKey : Result := ⟨"auth", 2⟩
def errAccNotFound : Result := ⟨"auth", 3⟩
def errInsufficientFee : Result := ⟨"auth", 4⟩
def errTooManySignatures : Result := ⟨"auth", 5⟩
def errDuplicateTx : Result := ⟨"auth", 6⟩
/-- `types.ErrInsufficientBalance` is built with `CodeDupTx` (6), not `CodeInsufficientBalance` (7):
as coded (x/auth/types/error.go). -/
def errInsufficientBalance : Result := ⟨"auth", 6⟩

/-- `codec.CodecChainHaltHeight`. -/
def haltHeight : Int := 30334

/-- `sdk.DefaultStakeDenom` = "upokt". -/
def upokt : Denom := [117, 112, 111, 107, 116]

/-- What `ValidateTransaction` needs to know about the message: all computed by the message's own
pure methods (`Type`, `GetSigners`, `GetFee`, `ValidateBasic`, `GetSignBytes`; for `MsgStake` the
address of its public key and `IsValidTransfer() == nil`). -/
inductive MsgKind where
  | nodeStake (operator : Addr)
  | appStake (pkAddr : Addr) (validTransfer : Bool)
  | other
  deriving DecidableEq, Repr

structure Msg where
  type : Bytes
  signers : List Addr
  baseFee : Int
  kind : MsgKind
  /-- `msg.ValidateBasic()`: `none` = passes. -/
  basic : Option Result
  signBytes : Bytes
  deriving Repr

/-- `StdTx` after decoding. -/
structure Tx (PK : Type) where
  msg : Msg
  fee : Coins
  pk : Option PK
  sig : Bytes
  memo : Bytes
  entropy : Int

/-- `auth.Params`. -/
structure Params where
  maxMemo : Nat
  sigLimit : Nat
  feeMultis : List (Bytes × Int)
  feeDefault : Int
  deriving Repr

/-- The rule set and block data in force for one DeliverTx. -/
structure Env where
  height : Int
  chainId : Bytes
  /-- `IsAfterNonCustodialUpgrade`, `IsAfterOutputAddressEditorUpgrade`, `IsAfterAppTransferUpgrade`
  at `height`; `ctx.IsAfterUpgradeHeight()`; `TxCacheEnhancementKey` at the last committed height. -/
  ncust : Bool
  oedit : Bool
  appTransfer : Bool
  afterUpgrade : Bool
  redup : Bool
  /-- address of the fee collector module account -/
  feeCollector : Addr
  deriving Repr

/-- The modern rule set. -/
def Env.modern (e : Env) : Prop :=
  e.ncust = true ∧ e.oedit = true ∧ e.appTransfer = true ∧ e.afterUpgrade = true ∧ e.redup = true

structure Account (PK : Type) where
  coins : Coins
  pk : Option PK

/-- The chain state as the ante handler sees it; `rest` is everything else. -/
structure World (S : Scheme) (Ω : Type) where
  accounts : Addr → Option (Account S.PK)
  params : Params
  /-- `GetValidator(operator)`: `none` = not found, `some o` = the record's `OutputAddress`
  (`none` = nil). -/
  valOutput : Addr → Option (Option Addr)
  /-- `GetApplication(addr)` found. -/
  isApp : Addr → Bool
  rest : Ω

/-- Point update of the account map. -/
def setAcc {PK : Type} (m : Addr → Option (Account PK)) (a : Addr) (acc : Account PK) :
    Addr → Option (Account PK) := fun x => if x = a then some acc else m x

/-! ## Fees -/

/-- `FeeMultipliers.GetFee(msg)`. -/
def getFee (p : Params) (m : Msg) : Int :=
  match p.feeMultis.find? (fun kv => kv.1 == m.type) with
  | some kv => m.baseFee * kv.2
  | none => m.baseFee * p.feeDefault

/-- `sdk.NewCoins(sdk.NewCoin("upokt", fee))`; `none` = `NewCoin` panics on a negative amount. -/
def expectedFee (p : Params) (m : Msg) : Option Coins :=
  let f := getFee p m
  if f < 0 then none else if f = 0 then some [] else some [⟨upokt, f⟩]

/-! ## `ValidateTransaction` -/

/-- Outcome of the ante handler's parts: a verifying key, an error result, or a Go panic. -/
inductive VT (PK : Type) where
  | pass (pk : PK)
  | fail (r : Result)
  | panic

/-- `GetMsgStakeOutputSigner`: nil (`[]`) unless the message is a node `MsgStake` of an existing
node; then the node's output address, the operator address when that is nil. -/
def outputSigner {S : Scheme} {Ω : Type} (w : World S Ω) (m : Msg) : Addr :=
  match m.kind with
  | .nodeStake op =>
    match w.valOutput op with
    | none => []
    | some none => op
    | some (some o) => o
  | _ => []

/-- `IsMsgAppTransfer(ctx, msgSigner, msg)`. -/
def isMsgAppTransfer {S : Scheme} {Ω : Type} (env : Env) (w : World S Ω) (msgSigner : Addr) (m : Msg) : Bool :=
  env.afterUpgrade && env.appTransfer &&
    match m.kind with
    | .appStake pkAddr true => msgSigner != pkAddr && w.isApp msgSigner
    | _ => false

/-- The signer list before the application-transfer case. -/
def baseSigners {S : Scheme} {Ω : Type} (env : Env) (w : World S Ω) (m : Msg) : List Addr :=
  if env.ncust && env.oedit then m.signers ++ [outputSigner w m] else m.signers

/-- The public key used for one signer: the one in the transaction, else the account's. -/
def signerKey {S : Scheme} {Ω : Type} (w : World S Ω) (tx : Tx S.PK) (signer : Addr) : Except Result S.PK :=
  match tx.pk with
  | some pk => .ok pk
  | none =>
    match w.accounts signer with
    | none => .error errAccNotFound
    | some acc =>
      match acc.pk with
      | none => .error errEmptyPublicKey
      | some pk => .ok pk

/-- The `for _, signer := range validSigners` loop. -/
def signerLoop (S : Scheme) {Ω : Type} (env : Env) (w : World S Ω) (tx : Tx S.PK) (signDoc : Bytes)
    (simulate : Bool) : List Addr → VT S.PK
  | [] => .fail errUnauthorized
  | signer :: rest =>
    match signerKey w tx signer with
    | .error r => .fail r
    | .ok pk =>
      if S.addr pk ≠ signer ∧ env.height ≠ haltHeight then signerLoop S env w tx signDoc simulate rest
      else
        match expectedFee w.params tx.msg with
        | none => .panic
        | some expected =>
          match S.shape pk with
          | .leaf =>
            if !Coins.isAllGTE tx.fee expected then .fail errInsufficientFee
            else if !simulate && !S.verify pk signDoc tx.sig then signerLoop S env w tx signDoc simulate rest
            else .pass pk
          | .node ks =>
            if !validateSignatureDepth w.params.sigLimit ks then .fail errTooManySignatures
            else if !simulate && !S.verify pk signDoc tx.sig then signerLoop S env w tx signDoc simulate rest
            else .pass pk

/-- The sign document of a transaction on chain `chainId`. -/
def signDocOf {PK : Type} (SB : Bytes → Int → Coins → Bytes → Bytes → Bytes) (chainId : Bytes) (tx : Tx PK) : Bytes :=
  SB chainId tx.entropy tx.fee tx.msg.signBytes tx.memo

/-- `validSigners` as `ValidateTransaction` builds it; `none` = the nil-interface method call
`stdTx.Signature.Address()` panics (public key omitted while the transfer feature is active). -/
def validSigners {S : Scheme} {Ω : Type} (env : Env) (w : World S Ω) (tx : Tx S.PK) : Option (List Addr) :=
  let vs := baseSigners env w tx.msg
  if env.afterUpgrade && env.appTransfer then
    match tx.pk with
    | none => none
    | some pk =>
      let ms := S.addr pk
      some (if isMsgAppTransfer env w ms tx.msg then vs ++ [ms] else vs)
  else some vs

/-- `ValidateTransaction(ctx, k, stdTx, params, txIndexer, txBz, simulate)`; `indexed` =
`txIndexer.Get(hash(txBz)) != nil`. -/
def validateTransaction (S : Scheme) {Ω : Type} (SB : Bytes → Int → Coins → Bytes → Bytes → Bytes)
    (env : Env) (w : World S Ω) (tx : Tx S.PK) (indexed : Bool) (simulate : Bool) : VT S.PK :=
  if tx.memo.length > w.params.maxMemo then .fail errInvalidMemo
  else if indexed then .fail errDuplicateTx
  else
    match validSigners env w tx with
    | none => .panic
    | some vs => signerLoop S env w tx (signDocOf SB env.chainId tx) simulate vs

/-- The documented set of addresses that may sign message `m` in state `w`: the declared signers,
the current output address of the node for a node stake message (the operator itself when the
record has no output address), and — for an application transfer — any staked application other
than the key in the message.  (Decidable: also evaluated by the drivers on dumped states.) -/
def allowed {S : Scheme} {Ω : Type} (w : World S Ω) (m : Msg) (a : Addr) : Bool :=
  m.signers.contains a ||
    match m.kind with
    | .nodeStake op =>
      (match w.valOutput op with
       | none => false
       | some none => a == op
       | some (some o) => a == o)
    | .appStake p true => a != p && w.isApp a
    | _ => false

/-! ## Message-level signer checks of the node handlers

`MsgBeginUnstake` and `MsgUnjail` *name* their signer (`msg.Signer`) and list it first in
`GetSigners()`, so for them the ante handler only establishes "the key belongs to `msg.Signer` or to
the node"; the authorization proper is `ValidateValidatorMsgSigner` in the handler.  For `MsgStake`
the handler re-checks the verifying key's address against the new and the current record. -/

/-- `ValidateValidatorMsgSigner(validator, signerAddress)`: operator, or the output address when the
record has one. -/
def validateValidatorMsgSigner (operator : Addr) (output : Option Addr) (signer : Addr) : Bool :=
  match output with
  | none => signer == operator
  | some o => signer == operator || signer == o

/-- The signer part of `ValidateValidatorStaking(ctx, validatorNew, amount, signerAddress)`:
`cur` = the stored record's output address if the node exists (`GetValidator`), `newOut` = the
message's output address.  Mirrors `skipMsgSignerValidation`, the check against the new record, the
nil-output rule after NCUST and the check against the current record. -/
def stakeSignerChecks (ncust oedit : Bool) (operator : Addr) (cur : Option (Option Addr))
    (newOut : Option Addr) (signer : Addr) : Bool :=
  let skip :=
    match cur with
    | some curOut => ncust && oedit && newOut.isSome && curOut != newOut && curOut == some signer
    | none => false
  (skip || validateValidatorMsgSigner operator newOut signer) &&
    (!ncust || newOut.isSome) &&
    (match cur with
     | some curOut => validateValidatorMsgSigner operator curOut signer
     | none => true)

/-! ## `DeductFees` -/

/-- `SetCoins`. -/
def setCoins {PK : Type} (m : Addr → Option (Account PK)) (a : Addr) (c : Coins) :
    Except Result (Addr → Option (Account PK)) :=
  if !Coins.isValid c then .error errInvalidCoins
  else
    match m a with
    | none => .ok (setAcc m a ⟨c, none⟩)
    | some acc => .ok (setAcc m a { acc with coins := c })

/-- Bank step outcome: new account map, an error, or a panic (`Sub` of an underflow, overflow). -/
inductive Bank (PK : Type) where
  | ok (m : Addr → Option (Account PK))
  | err (r : Result)
  | panic

/-- `SubtractCoins`. -/
def subtractCoins {PK : Type} (m : Addr → Option (Account PK)) (a : Addr) (amt : Coins) : Bank PK :=
  if !Coins.isValid amt then .err errInvalidCoins
  else
    let old := match m a with | none => [] | some acc => acc.coins
    match Coins.safeSub old amt with
    | none => .panic
    | some (_, true) => .err errInsufficientCoins
    | some (d, false) =>
      match setCoins m a d with
      | .ok m' => .ok m'
      | .error r => .err r

/-- `AddCoins`. -/
def addCoins {PK : Type} (m : Addr → Option (Account PK)) (a : Addr) (amt : Coins) : Bank PK :=
  if !Coins.isValid amt then .err errInvalidCoins
  else
    let old := match m a with | none => [] | some acc => acc.coins
    match Coins.safeAdd old amt with
    | none => .panic
    | some s =>
      if Coins.isAnyNegative s then .err errInsufficientCoins
      else
        match setCoins m a s with
        | .ok m' => .ok m'
        | .error r => .err r

/-- `SendCoins`: subtract, then add (the subtraction stays if the addition fails — inside the ante
handler that is on the dropped cache). -/
def sendCoins {PK : Type} (m : Addr → Option (Account PK)) (src dst : Addr) (amt : Coins) : Bank PK :=
  match subtractCoins m src amt with
  | .ok m1 => addCoins m1 dst amt
  | r => r

/-- `DeductFees(keeper, ctx, tx, signer)`: the payer is the verifying key's address after NCUST,
`GetSigners()[0]` before. -/
def deductFees {S : Scheme} {Ω : Type} (env : Env) (w : World S Ω) (tx : Tx S.PK) (pk : S.PK) : Bank S.PK :=
  if !Coins.isValid tx.fee then .err errSdkInsufficientFee
  else
    let payer? : Option Addr := if env.ncust then some (S.addr pk) else tx.msg.signers.head?
    match payer? with
    | none => .panic
    | some payer =>
      match w.accounts payer with
      | none => .err errUnknownAddress
      | some acc =>
        match Coins.safeSub acc.coins tx.fee with
        | none => .panic
        | some (_, true) => .err errInsufficientBalance
        | some (_, false) => sendCoins w.accounts payer env.feeCollector tx.fee

/-- The payer of `deductFees`. -/
def feePayer {S : Scheme} (env : Env) (tx : Tx S.PK) (pk : S.PK) : Option Addr :=
  if env.ncust then some (S.addr pk) else tx.msg.signers.head?

/-! ## The ante handler -/

/-- What `runTx` gets back from the ante handler. -/
inductive AnteOut (S : Scheme) (Ω : Type) where
  | cont (w : World S Ω) (pk : S.PK)
  | abort (r : Result)

/-- `StdTx.ValidateBasic`. -/
def txValidateBasic {PK : Type} (tx : Tx PK) : Option Result :=
  if !Coins.isValid tx.fee then some errSdkInsufficientFee
  else if tx.sig.isEmpty then some errUnauthorized
  else none

/-- `NewAnteHandler(ak)(ctx, tx, txBz, txIndexer, simulate)`, with `runTx`'s `recover()`. -/
def anteHandler (S : Scheme) {Ω : Type} (SB : Bytes → Int → Coins → Bytes → Bytes → Bytes)
    (env : Env) (w : World S Ω) (tx : Tx S.PK) (indexed : Bool) (simulate : Bool) : AnteOut S Ω :=
  match txValidateBasic tx with
  | some r => .abort r
  | none =>
    match validateTransaction S SB env w tx indexed simulate with
    | .fail r => .abort r
    | .panic => .abort errInternal
    | .pass pk =>
      match deductFees env w tx pk with
      | .err r => .abort r
      | .panic => .abort errInternal
      | .ok m => .cont { w with accounts := m } pk

/-! ## `runTx` / `DeliverTx` / block end -/

/-- The application code around the ante handler. -/
structure Hooks (S : Scheme) (Ω : Type) where
  decode : Bytes → Option (Tx S.PK)
  hash : Bytes → Bytes
  /-- the routed message handler run by `runMsg` on the uncached store: arbitrary -/
  handler : Env → World S Ω → Msg → S.PK → World S Ω × Result
  SB : Bytes → Int → Coins → Bytes → Bytes → Bytes

/-- `runTx(runTxModeDeliver, txBytes, tx)`: the ante handler runs on a cache that is written iff it
did not abort; the handler's writes always stay. -/
def runTx {S : Scheme} {Ω : Type} (hk : Hooks S Ω) (env : Env) (w : World S Ω) (tx : Tx S.PK)
    (indexed : Bool) : World S Ω × Result :=
  match tx.msg.basic with
  | some r => (w, r)
  | none =>
    match anteHandler S hk.SB env w tx indexed false with
    | .abort r => (w, r)
    | .cont w' pk => hk.handler env w' tx.msg pk

/-- A node: chain state, the in-block `transactionCache`, the tx indexer (set of hashes) and the
results of the block in progress (what Tendermint hands to the indexer after the block). -/
structure Node (S : Scheme) (Ω : Type) where
  world : World S Ω
  cache : List Bytes
  indexed : List Bytes
  pending : List (Bytes × Result)

/-- `BaseApp.DeliverTx`. -/
def deliverTx {S : Scheme} {Ω : Type} (hk : Hooks S Ω) (env : Env) (n : Node S Ω) (raw : Bytes) :
    Node S Ω × Result :=
  let dup := n.cache.contains raw
  let cache' := if dup then n.cache else raw :: n.cache
  let out : World S Ω × Result :=
    match hk.decode raw with
    | none => (n.world, errTxDecode)
    | some tx =>
      if dup && env.redup then (n.world, errDuplicateTx)
      else runTx hk env n.world tx (n.indexed.contains (hk.hash raw))
  ({ world := out.1, cache := cache', indexed := n.indexed, pending := n.pending ++ [(raw, out.2)] }, out.2)

/-- Did this DeliverTx get past the ante handler (fee charged, message handler run)? -/
def antePasses {S : Scheme} {Ω : Type} (hk : Hooks S Ω) (env : Env) (n : Node S Ω) (raw : Bytes) : Bool :=
  match hk.decode raw with
  | none => false
  | some tx =>
    if n.cache.contains raw && env.redup then false
    else
      match tx.msg.basic with
      | some _ => false
      | none =>
        match anteHandler S hk.SB env n.world tx (n.indexed.contains (hk.hash raw)) false with
        | .cont _ _ => true
        | .abort _ => false

/-- `EndBlock` (clears the in-block cache) + `Commit` + Tendermint's indexer service calling
`TransactionIndexer.AddBatch` with the block's results (ante-level failures are skipped). -/
def endBlock {S : Scheme} {Ω : Type} (hk : Hooks S Ω) (n : Node S Ω) : Node S Ω :=
  { world := n.world, cache := [],
    indexed := n.indexed ++ (n.pending.filter (fun p => !p.2.anteLevel)).map (fun p => hk.hash p.1),
    pending := [] }

/-- Operations of a node history. `other` is any state change not caused by a transaction
(begin/end blockers). -/
inductive Op (S : Scheme) (Ω : Type) where
  | deliver (env : Env) (raw : Bytes)
  | endBlock
  | other (f : World S Ω → World S Ω)

/-- One observed DeliverTx: the bytes, the state before and after. -/
structure Event (S : Scheme) (Ω : Type) where
  raw : Bytes
  pre : World S Ω
  post : World S Ω
  res : Result
  /-- the ante handler did not abort -/
  passed : Bool

/-- Run a history, collecting the DeliverTx events. -/
def run {S : Scheme} {Ω : Type} (hk : Hooks S Ω) : Node S Ω → List (Op S Ω) → Node S Ω × List (Event S Ω)
  | n, [] => (n, [])
  | n, .deliver env raw :: ops =>
    let (n', r) := deliverTx hk env n raw
    let (nf, evs) := run hk n' ops
    (nf, ⟨raw, n.world, n'.world, r, antePasses hk env n raw⟩ :: evs)
  | n, .endBlock :: ops => run hk (endBlock hk n) ops
  | n, .other f :: ops => run hk { n with world := f n.world } ops

end Ledger
