import PocketModel.Ledger.Nodes
/-!
# Executable specification of the nodes ledger (C19, C21, C22, C23, C24, C25)

Decidable predicates over one state or over a (before, after) pair of states.  They mention only
what the properties talk about (records, index prefixes, pool, balances, reported updates) and are
evaluated by the Lean driver on the **implementation's own dumped states**; the theorems of
`Props/C19 … C25` prove that the model satisfies them for every history.
-/
namespace Nodes
namespace Spec

/-- staked or unstaking: the record's tokens are held by the pool -/
def bonded (v : Val) : Bool := decide (v.status = .staked) || decide (v.status = .unstaking)

/-- Σ tokens of staked and unstaking records -/
def sumBonded (vals : List (Addr × Val)) : Int :=
  (vals.map fun p => if bonded p.2 then p.2.tokens else 0).sum

/-- C19: pool balance = Σ staked tokens (`surplus` = coins known to have been sent to the pool
address directly) -/
def poolOk (s : State) (surplus : Int := 0) : Bool := s.pool == sumBonded s.vals + surplus

/-- staked and not jailed: belongs to the staked-by-power index -/
def eligible (v : Val) : Bool := decide (v.status = .staked) && !v.jailed

/-- C21: every staked-index entry names an eligible record under its current power -/
def stakedIdxSound (s : State) : Bool :=
  s.stakedIdx.all fun e => match aget s.vals e.2 with
    | some v => eligible v && decide (powerOf v.tokens = e.1)
    | none => false

/-- C21: every eligible record is in the staked index under its current power -/
def stakedIdxComplete (s : State) : Bool :=
  s.vals.all fun p => !eligible p.2 || decide ((powerOf p.2.tokens, p.1) ∈ s.stakedIdx)

/-- C21: every chain-index entry names a staked record that declares the chain -/
def chainIdxSound (s : State) : Bool :=
  s.chainIdx.all fun e => match aget s.vals e.2 with
    | some v => decide (v.status = .staked) && decide (e.1 ∈ v.chains)
    | none => false

/-- C21: every staked record is listed under each chain it declares -/
def chainIdxComplete (s : State) : Bool :=
  s.vals.all fun p => !decide (p.2.status = .staked) || p.2.chains.all fun c => decide ((c, p.1) ∈ s.chainIdx)

/-- C21: every queue entry names an unstaking record with that completion time -/
def queueSound (s : State) : Bool :=
  s.unstQ.all fun e => e.2.all fun a => match aget s.vals a with
    | some v => decide (v.status = .unstaking) && decide (v.unstTime = e.1)
    | none => false

/-- C21: every unstaking record is queued under its completion time -/
def queueComplete (s : State) : Bool :=
  s.vals.all fun p => !decide (p.2.status = .unstaking) || decide (p.1 ∈ getQ s p.2.unstTime)

/-- the waiting set names existing records only -/
def waitingSound (s : State) : Bool := s.waiting.all fun a => (aget s.vals a).isSome

/-- C22: the records that may sit in the consensus set -/
def candidates (s : State) : List (Int × Addr) :=
  (s.vals.filter fun p => eligible p.2 && decide (powerOf p.2.tokens > 0)).map fun p => (powerOf p.2.tokens, p.1)

/-- C22: the top `maxValidators` staked, unjailed nodes with their current powers -/
def topN (s : State) : List (Addr × Int) :=
  ((sortStaked (candidates s)).take s.params.maxValidators.toNat).map fun e => (e.2, e.1)

/-- equality of two finite maps given as association lists without duplicate keys -/
def sameMap (a b : List (Addr × Int)) : Bool :=
  a.all (fun p => aget b p.1 == some p.2) && b.all (fun p => aget a p.1 == some p.2)

/-- C22: previous-power store = top N -/
def prevPowerOk (s : State) : Bool := sameMap s.prevPower (topN s)

/-- C22: consensus engine's set (all updates applied to ∅) = top N -/
def tmSetOk (s : State) : Bool := sameMap s.tmSet (topN s)

/-- C25: no jailed node in the consensus set -/
def noJailedInSet (s : State) : Bool :=
  s.tmSet.all fun p => match aget s.vals p.1 with
    | some v => eligible v
    | none => false

/-- C24: nothing is overdue after an end-block at time `t` -/
def noOverdue (s : State) (t : Int) : Bool :=
  s.vals.all fun p => !(decide (p.2.status = .unstaking) && decide (p.2.unstTime ≤ t))

/-- C23: the immutability rules of an edit (`cur` → `new`, signed by `signer`, `wasWaiting`) -/
def editOk (cur new : Val) (signer : Addr) (wasWaiting : Bool) : List String :=
  (if signerOk cur.addr cur.output signer then [] else ["edit-by-unauthorized-signer"]) ++
  (if new.tokens < cur.tokens then ["edit-lowered-stake"] else []) ++
  (if new.addr ≠ cur.addr ∨ new.pk ≠ cur.pk ∨ new.jailed ≠ cur.jailed ∨ new.status ≠ cur.status then ["edit-changed-identity"] else []) ++
  (if new.output ≠ cur.output ∧ cur.output ≠ [] ∧ signer ≠ cur.output then ["edit-output-changed-by-other-signer"] else []) ++
  (if new.delegators ≠ cur.delegators ∧ signer ≠ cur.addr then ["edit-delegators-changed-by-non-operator"] else []) ++
  (if wasWaiting then ["edit-of-waiting-node"] else [])

end Spec
end Nodes
