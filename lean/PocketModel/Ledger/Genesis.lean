import PocketModel.Ledger.Apps
/-!
# Genesis export / init of every module, as coded

`export` mirrors `x/*/genesis.go:ExportGenesis` (through `app/pocket.go:ExportAppState`),
`validate*` mirrors the per-module `ValidateGenesis` the module manager runs before each
`InitGenesis`, `init*` mirrors `InitGenesis` of auth, pos (nodes), application, pocketcore and gov
in the order of `app.mm.SetOrderInitGenesis`.  The new chain is initialised at height 0 with every
named feature scheduled at a positive height (the only workable schedule of this version: the codec
upgrade height must be positive), so that at `InitGenesis`
* `Subspace.SetParamSet` skips the parameters introduced after genesis (`additionalKeys`), and
* node records are written with the legacy codec, which has no output address / reward delegators.

The abstract ledger `L` lists the components the property names (accounts + balances, supply,
nodes, applications, parameters, pending claims) plus the derived stores `InitGenesis` rebuilds
(indexes, queues, signing infos, previous-state powers).  Addresses are byte strings; records the
logic never inspects are kept as opaque strings.
-/
namespace Gen
open Apps (Addr)

structure Acct where
  addr : Addr
  upokt : Int
  /-- module-account name, `""` for a plain account -/
  module : String
  hasPub : Bool
  /-- holds coins of another denomination -/
  other : Bool
deriving DecidableEq, Repr, Inhabited

structure Node where
  addr : Addr
  status : Nat
  jailed : Bool
  tokens : Int
  unstakingTime : Int
  /-- output address (`"-"` = none) and reward delegators (`"-"` = none): post-genesis fields -/
  output : String
  chains : List String
  delegators : String
  url : String
deriving DecidableEq, Repr, Inhabited

/-- entries of the index prefixes of the pos store -/
inductive NodeIdx where
  | staked (power : Int) (keyAddr valAddr : Addr)
  | chain (chain : String) (addr : Addr)
  | unstaking (time : Int) (addrs : List Addr)
  | waiting (addr : Addr)
deriving DecidableEq, Repr

structure Sign where
  addr : Addr
  start : Int
  index : Int
  jailedUntil : Int
  missed : Int
  jailedBlocks : Int
deriving DecidableEq, Repr, Inhabited

structure Claim where
  /-- the whole record (from-address, header, root, proofs, evidence type) -/
  record : String
  expiration : Int
deriving DecidableEq, Repr, Inhabited

structure L where
  accounts : List Acct
  supply : Int
  nodes : List Node
  nodeIdx : List NodeIdx
  signing : List Sign
  prevPower : List (Addr × Int)
  prevTotal : Int
  proposer : Option Addr
  apps : List (Addr × Apps.App)
  appIdx : List ((Int × Addr) × Addr)
  appQueue : List (Int × List Addr)
  claims : List Claim
  /-- stored parameters, key `"<subspace>/<Key>"` ↦ raw JSON (hex) -/
  params : List (String × String)
  /-- keys of the governance ACL -/
  acl : List String
  /-- typed values the init logic reads: pos `StakeMinimum` and the application parameters -/
  posMinStake : Int
  appParams : Apps.Params
deriving Repr, Inhabited

def poolName : String := "staked_tokens_pool"
def appPoolName : String := "application_staked_tokens_pool"
def daoName : String := "dao"

def moduleBal (accts : List Acct) (name : String) : Int :=
  match accts.find? (fun a => a.module = name) with
  | some a => a.upokt
  | none => 0

def L.dao (l : L) : Int := moduleBal l.accounts daoName

/-- parameters introduced after genesis (`types/param.go:additionalParametersKeys`) -/
def additionalKeys : List String :=
  ["pocketcore/BlockByteSize", "pos/RelaysToTokensMultiplierMap", "pos/ServicerStakeFloorMultiplier",
   "pos/ServicerStakeWeightMultiplier", "pos/ServicerStakeWeightCeiling", "pos/ServicerStakeFloorMultiplierExponent"]

/-- `k` = `"<sub>/<Key>"` (character lists: reducible by the kernel) -/
def inSubspace (k sub : String) : Bool := k.toList.takeWhile (· != '/') == sub.toList

/-! ## Export -/

/-- The exported genesis document (the part the model needs). -/
structure G where
  accounts : List Acct
  supply : Int
  nodes : List Node
  prevPower : List (Addr × Int)
  prevTotal : Int
  signing : List Sign
  proposer : Option Addr
  apps : List (Addr × Apps.App)
  claims : List Claim
  params : List (String × String)
  acl : List String
  daoTokens : Int
  posMinStake : Int
  appParams : Apps.Params
deriving Repr, Inhabited

/-- `ExportAppState`: auth exports only accounts with non-empty coins; pos resets the signing-info
index offset and exports no missed-block bits; everything else is exported as stored. -/
def exportGenesis (l : L) : G :=
  { accounts := l.accounts.filter (fun a => a.upokt ≠ 0 || a.other)
    supply := l.supply
    nodes := l.nodes
    prevPower := l.prevPower
    prevTotal := l.prevTotal
    signing := l.signing.map (fun s => { s with index := 0 })
    proposer := l.proposer
    apps := l.apps
    claims := l.claims
    params := l.params
    acl := l.acl
    daoTokens := l.dao
    posMinStake := l.posMinStake
    appParams := l.appParams }

/-! ## ValidateGenesis -/

inductive VRes where
  | ok
  | err
  | panic
deriving DecidableEq, Repr

/-- `auth/types.ValidateGenesis`: `account.GetPubKey().PubKey()` on an account without public key
is a nil-pointer dereference (module accounts never have one). -/
def validateAuth (g : G) : VRes := if g.accounts.any (fun a => !a.hasPub) then .panic else .ok

/-- `nodes.ValidateGenesis`: a non-unstaked validator below the minimum stake (or at zero) is rejected. -/
def validatePos (g : G) : VRes :=
  if g.nodes.any (fun n => n.status ≠ Apps.stUnstaked && (n.tokens = 0 || n.tokens < g.posMinStake)) then .err else .ok

/-- `apps.ValidateGenesis`: staked ∧ jailed, zero stake, or stake **≤** the minimum is rejected. -/
def validateApps (g : G) : VRes :=
  if g.apps.any (fun e => (e.2.jailed && e.2.status = Apps.stStaked)
      || (e.2.tokens = 0 && e.2.status ≠ Apps.stUnstaked)
      || (e.2.status ≠ Apps.stUnstaked && e.2.tokens ≤ g.appParams.minStake)) then .err else .ok

/-- `pocketcore/types.ValidateGenesis`: every claim must pass `MsgClaim.ValidateBasic`, which
requires `ExpirationHeight = 0` — stored claims always carry their expiration height. -/
def validatePocket (g : G) : VRes := if g.claims.any (fun c => c.expiration ≠ 0) then .err else .ok

/-! ## InitGenesis -/

def setModuleBal (accts : List Acct) (name : String) (v : Int) : List Acct :=
  accts.map (fun a => if a.module = name then { a with upokt := v } else a)

def baseParams (ps : List (String × String)) (sub : String) : List (String × String) :=
  ps.filter (fun e => inSubspace e.1 sub && !additionalKeys.contains e.1)

/-- `auth.InitGenesis`. -/
def initAuth (g : G) (l : L) : L :=
  { l with accounts := g.accounts
           supply := if g.supply = 0 then (g.accounts.map (·.upokt)).foldl (· + ·) 0 else g.supply
           params := l.params ++ baseParams g.params "auth" }

/-- the record `SetValidator` writes at height 0 (legacy codec: no output address / delegators) -/
def legacyNode (n : Node) : Node := { n with output := "-", delegators := "-" }

def queueAddN (q : List (Int × List Addr)) (t : Int) (a : Addr) : List (Int × List Addr) := Apps.queueAdd q t a

/-- index entries `SetValidator` + `SetStakedValidatorByChains` write for the validators in order -/
def nodeIndexes (ns : List Node) : List NodeIdx :=
  let staked := (ns.filter (fun n => n.status = Apps.stStaked && !n.jailed)).map (fun n => NodeIdx.staked (Apps.power n.tokens) n.addr n.addr)
  let chains := ns.flatMap (fun n => n.chains.map (fun c => NodeIdx.chain c n.addr))
  let q := (ns.filter (fun n => n.status = Apps.stUnstaking)).foldl (fun q n => queueAddN q n.unstakingTime n.addr) []
  staked ++ chains ++ q.map (fun e => NodeIdx.unstaking e.1 e.2)

def defaultSign (a : Addr) : Sign := { addr := a, start := 0, index := 0, jailedUntil := 0, missed := 0, jailedBlocks := 0 }

def sumStakedNodes (ns : List Node) : Int :=
  (ns.filter (fun n => n.status = Apps.stStaked)).foldl (fun s n => s + n.tokens) 0

/-- `nodes.InitGenesis`; `none` = `os.Exit(1)`. -/
def initPos (g : G) (l : L) : Option L :=
  if g.nodes.any (fun n => n.status = Apps.stUnstaked) then none
  else
    let staked := sumStakedNodes g.nodes
    let pool := moduleBal l.accounts poolName
    if pool ≠ 0 ∧ pool ≠ staked then none
    else
      let accts := if pool = 0 then setModuleBal l.accounts poolName staked else l.accounts
      let defaults := (g.nodes.filter (fun n => !g.signing.any (fun s => s.addr = n.addr))).map (fun n => defaultSign n.addr)
      some { l with accounts := accts
                    supply := l.supply + staked
                    nodes := g.nodes.map legacyNode
                    nodeIdx := nodeIndexes g.nodes
                    signing := g.signing ++ defaults
                    prevPower := g.prevPower
                    prevTotal := g.prevTotal
                    proposer := g.proposer
                    posMinStake := g.posMinStake
                    params := l.params ++ baseParams g.params "pos" }

def sumStakedApps (as : List (Addr × Apps.App)) : Int :=
  (as.filter (fun e => e.2.status = Apps.stStaked)).foldl (fun s e => s + e.2.tokens) 0

/-- `apps.InitGenesis`; `none` = `log.Fatal`.  Unstaking / unstaked applications are skipped; the
allowance of every other one is **recomputed** with the current parameters, pools and supply. -/
def initApps (g : G) (l : L) : Option L :=
  let kept := g.apps.filter (fun e => e.2.status ≠ Apps.stUnstaked && e.2.status ≠ Apps.stUnstaking)
  let pool := moduleBal l.accounts appPoolName
  let nodePool := moduleBal l.accounts poolName
  let recs := kept.map (fun e => (e.1, { e.2 with maxRelays := Apps.calcRelays g.appParams pool nodePool l.supply e.2.tokens }))
  let staked := sumStakedApps recs
  if pool ≠ 0 ∧ pool ≠ staked then none
  else
    let accts := if pool = 0 then setModuleBal l.accounts appPoolName staked else l.accounts
    some { l with accounts := accts
                  supply := l.supply + staked
                  apps := recs
                  appIdx := (recs.filter (fun e => e.2.status = Apps.stStaked && !e.2.jailed)).map (fun e => ((Apps.power e.2.tokens, e.1), e.1))
                  appQueue := []
                  appParams := g.appParams
                  params := l.params ++ baseParams g.params "application" }

/-- `pocketcore.InitGenesis`: a claim without expiration height cannot be stored at genesis. -/
def initPocket (g : G) (l : L) : L :=
  { l with claims := g.claims.filter (fun c => c.expiration ≠ 0)
           params := l.params ++ baseParams g.params "pocketcore" }

/-- `gov Keeper.InitGenesis`; `none` = `os.Exit(1)` (an ACL key that is not a stored parameter).
The DAO tokens are **minted** on top of the exported DAO account. -/
def initGov (g : G) (l : L) : Option L :=
  let l1 := { l with params := l.params ++ baseParams g.params "gov", acl := g.acl }
  if g.acl.all (fun k => l1.params.any (fun e => e.1 = k)) then
    some { l1 with accounts := setModuleBal l1.accounts daoName (moduleBal l1.accounts daoName + g.daoTokens)
                   supply := l1.supply + g.daoTokens }
  else none

def emptyL : L :=
  { accounts := [], supply := 0, nodes := [], nodeIdx := [], signing := [], prevPower := [], prevTotal := 0, proposer := none,
    apps := [], appIdx := [], appQueue := [], claims := [], params := [], acl := [], posMinStake := 0,
    appParams := { minStake := 0, maxChains := 0, maxApps := 0, baseRelays := 0, stability := 0, unstakingTime := 0, participation := false } }

/-- the module whose `InitGenesis` did not complete -/
inductive Stage where
  | auth | pos | application | pocketcore | gov | done
deriving DecidableEq, Repr

def Stage.render : Stage → String
  | .auth => "auth" | .pos => "pos" | .application => "application" | .pocketcore => "pocketcore" | .gov => "gov" | .done => "done"

/-- The modules' `InitGenesis` in order, without the validation steps: the stage reached and the
state written so far. -/
def initModules (g : G) : Stage × L :=
  let l1 := initAuth g emptyL
  match initPos g l1 with
  | none => (.pos, l1)
  | some l2 =>
    match initApps g l2 with
    | none => (.application, l2)
    | some l3 =>
      let l4 := initPocket g l3
      match initGov g l4 with
      | none => (.gov, l4)
      | some l5 => (.done, l5)

/-- How `InitChain` (module manager: validate, then init, module by module) ends. -/
inductive InitRes where
  | ok (l : L)
  | validateFailed (module : String) (r : VRes)
  | exited (module : String)
deriving Repr

/-- `BaseApp.InitChain` → `Manager.InitGenesis` on an exported document. -/
def initChain (g : G) : InitRes :=
  match validateAuth g with
  | .ok =>
    let l1 := initAuth g emptyL
    match validatePos g with
    | .ok =>
      match initPos g l1 with
      | none => .exited "pos"
      | some l2 =>
        match validateApps g with
        | .ok =>
          match initApps g l2 with
          | none => .exited "application"
          | some l3 =>
            match validatePocket g with
            | .ok =>
              match initGov g (initPocket g l3) with
              | none => .exited "gov"
              | some l5 => .ok l5
            | r => .validateFailed "pocketcore" r
        | r => .validateFailed "application" r
    | r => .validateFailed "pos" r
  | r => .validateFailed "auth" r

/-! ## The view the property compares -/

/-- accounts and balances: an account with empty coins is the same as no account -/
def viewAccounts (l : L) : List Acct := l.accounts.filter (fun a => a.upokt ≠ 0 || a.other)

structure View where
  accounts : List Acct
  supply : Int
  nodes : List Node
  apps : List (Addr × Apps.App)
  params : List (String × String)
  claims : List Claim
deriving Repr

def view (l : L) : View :=
  { accounts := viewAccounts l, supply := l.supply, nodes := l.nodes, apps := l.apps, params := l.params, claims := l.claims }

end Gen
