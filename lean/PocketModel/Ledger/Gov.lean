import PocketModel.Ledger.Bank
/-!
# Ledger / Gov — access control of parameters, upgrades and DAO funds
(x/gov/handler.go, x/gov/keeper/{acl,subspace,dao}.go, x/gov/types/acl.go, types/param.go)

State: the bank, the three gov parameters that carry authority (`gov/acl`, `gov/daoOwner`; the
upgrade parameter is one of the raw values) and the raw stored value of every parameter keyed by
its ACL key `"<subspace>/<name>"`.  Parameter values are opaque strings (the canonical JSON the
subspace stores): what a value *means* is the business of the module that reads it.  A message
carries the outcome of decoding its value (`ParamVal`): decoding is `cdc.UnmarshalJSON` into the
registered type and is not modelled; whether it succeeded is an input.
-/
namespace Ledger

/-- `types.ACL`: ordered pairs, first match wins (`ACL.GetOwner`). -/
abbrev ACL := List (String × Addr)

/-- `ACL.GetOwner`: `nil` (empty) when the key has no entry. -/
def ACL.getOwner : ACL → String → Addr
  | [], _ => []
  | (k, a) :: r, key => if k = key then a else ACL.getOwner r key

/-- `Address.Equals`: two empty addresses are equal, otherwise bytewise equality — which is list
equality in the model. -/
def addrEquals (a b : Addr) : Bool := a == b

abbrev Params := List (String × String)

def Params.get : Params → String → Option String
  | [], _ => none
  | (k, v) :: r, key => if k = key then some v else Params.get r key

def Params.set : Params → String → String → Params
  | [], key, v => [(key, v)]
  | (k, w) :: r, key, v => if k = key then (k, v) :: r else (k, w) :: Params.set r key v

structure GovState where
  bank : Bank
  acl : ACL
  daoOwner : Addr
  params : Params
deriving DecidableEq, Repr

/-- Result classes of the gov handlers. -/
inductive GovErr where
  | unauthorized        -- ErrUnauthorizedParamChange / sdk.ErrUnauthorized (DAO)
  | heightGuard         -- ErrUnauthorizedHeightParamChange (pos/MaxValidators before the split)
  | panic               -- recovered panic: malformed key, unregistered parameter, negative coin, malformed feature
  | bank (e : Err)      -- error of the bank primitive
  | badMsg              -- ValidateBasic
deriving DecidableEq, Repr

structure GovOut where
  st : GovState
  err : Option GovErr
deriving DecidableEq, Repr

/-- What `Subspace.Update` makes of the value bytes of a `MsgChangeParam`. -/
inductive ParamVal where
  /-- `UnmarshalJSON` into the registered type failed: `Update` returns an error — which `ModifyParam`
  drops (`_ = space.Update(...)`), so the transaction *succeeds* and nothing is stored. -/
  | undecodable
  /-- decoded; `stored` is the canonical JSON `Subspace.Set` writes -/
  | plain (stored : String)
  /-- value of `gov/acl` -/
  | acl (pairs : ACL) (stored : String)
  /-- value of `gov/daoOwner` -/
  | owner (a : Addr) (stored : String)
deriving DecidableEq, Repr

/-- Static facts about a key that `ModifyParam` consults after the ACL check. -/
structure KeyInfo where
  /-- the key has the form `sub/name` (else `SplitACLKey` indexes out of range) -/
  wellFormed : Bool
  /-- the subspace's key table has the name (else `Update` panics "Parameter not registered") -/
  registered : Bool
deriving DecidableEq, Repr

def maxValidatorsKey : String := "pos/MaxValidators"
def minSafeMaxValidatorHeight : Int := 40000
def upgradeKey : String := "gov/upgrade"
def daoName : String := "dao"

namespace Gov

/-- `Keeper.VerifyACL`. -/
def verifyACL (st : GovState) (key : String) (signer : Addr) : Bool :=
  addrEquals (st.acl.getOwner key) signer

/-- `Keeper.ModifyParam` (handler of `MsgChangeParam`) at block `height`; `splitActive` is
`IsAfterValidatorSplitUpgrade(height)`. -/
def changeParam (st : GovState) (height : Int) (splitActive : Bool) (ki : KeyInfo)
    (key : String) (val : ParamVal) (signer : Addr) : GovOut :=
  if !verifyACL st key signer then ⟨st, some .unauthorized⟩
  else if height ≥ minSafeMaxValidatorHeight ∧ splitActive = false ∧ key = maxValidatorsKey then ⟨st, some .heightGuard⟩
  else if !ki.wellFormed || !ki.registered then ⟨st, some .panic⟩
  else
    match val with
    | .undecodable => ⟨st, none⟩
    | .plain s => ⟨{ st with params := st.params.set key s }, none⟩
    | .acl pairs s => ⟨{ st with params := st.params.set key s, acl := pairs }, none⟩
    | .owner a s => ⟨{ st with params := st.params.set key s, daoOwner := a }, none⟩

/-- `Keeper.HandleUpgrade` (handler of `MsgUpgrade`): ACL check on `gov/upgrade`, then the stored
upgrade parameter is replaced by what the merge logic computes (`newStored`; `none` = the merge
panicked on a malformed feature string — C37's subject). -/
def upgrade (st : GovState) (newStored : Option String) (signer : Addr) : GovOut :=
  if !verifyACL st upgradeKey signer then ⟨st, some .unauthorized⟩
  else
    match newStored with
    | none => ⟨st, some .panic⟩
    | some s => ⟨{ st with params := st.params.set upgradeKey s }, none⟩

/-- `Keeper.DAOTransferFrom`. -/
def daoTransfer (mt : ModTable) (st : GovState) (signer dst : Addr) (amt : Int) : GovOut :=
  if !addrEquals st.daoOwner signer then ⟨st, some .unauthorized⟩
  else if amt < 0 then ⟨st, some .panic⟩      -- sdk.NewCoin panics on a negative amount
  else
    let o := Bank.sendModuleToAccount mt st.bank daoName dst amt
    ⟨{ st with bank := o.st }, o.err.map .bank⟩

/-- `Keeper.DAOBurn`. -/
def daoBurn (mt : ModTable) (st : GovState) (signer : Addr) (amt : Int) : GovOut :=
  if !addrEquals st.daoOwner signer then ⟨st, some .unauthorized⟩
  else if amt < 0 then ⟨st, some .panic⟩
  else
    let o := Bank.burnCoins mt st.bank daoName amt
    ⟨{ st with bank := o.st }, o.err.map .bank⟩

/-- `MsgDAOTransfer.ValidateBasic` + `handleMsgDaoTransfer`, action `dao_transfer`. -/
def msgDAOTransfer (mt : ModTable) (st : GovState) (signer dst : Addr) (amt : Int) : GovOut :=
  if signer = [] ∨ amt = 0 ∨ dst = [] then ⟨st, some .badMsg⟩ else daoTransfer mt st signer dst amt

/-- `MsgDAOTransfer.ValidateBasic` + `handleMsgDaoTransfer`, action `dao_burn` (the recipient
field is ignored). -/
def msgDAOBurn (mt : ModTable) (st : GovState) (signer : Addr) (amt : Int) : GovOut :=
  if signer = [] ∨ amt = 0 then ⟨st, some .badMsg⟩ else daoBurn mt st signer amt

end Gov
end Ledger
