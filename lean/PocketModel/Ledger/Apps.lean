import PocketModel.Basic.Bytes
import PocketModel.Num.BigDec
/-!
# The applications module ledger (`x/apps`), modern rule set

Executable model of `x/apps/handler.go` + `x/apps/keeper/*` **as coded**, with every named
feature active (codec upgrade, AppTransfer, …).  Deliver mode has no rollback, so every handler
is written with the actual order of writes and early returns of the Go code.

State components: application records (main store, prefix `0x01`), the staked index (prefix
`0x02`, key = consensus power ‖ inverted address, value = address), the unstaking queue (prefix
`0x03`, key = sortable completion time, value = address list), the balance of the
`application_staked_tokens_pool` module account, the fee collector, ordinary account balances,
the parameters, plus the three quantities `CalculateAppRelays` reads when the participation rate
is on (node pool, total supply).

Abstractions: a public key is an opaque byte string and its address is carried next to it (the
hash is not modelled); amounts are unbounded `Int` (the 255/315-bit overflow panics of
`BigInt`/`BigDec` are not modelled: all amounts are bounded by the total supply); time is `Int`
nanoseconds and the sortable time format is identified with the order of `Int` (`0` = Go's zero
time); signatures are assumed valid and fees sufficient (the signer *identity* logic of the ante
handler is modelled because transfers depend on it).
-/
namespace Apps

abbrev Addr := Bytes

/-! ## Association lists (store prefixes) -/
section AMap
variable {κ : Type} {α : Type} [DecidableEq κ]

/-- `store.Get`. -/
def get : List (κ × α) → κ → Option α
  | [], _ => none
  | (k', v) :: m, k => if k' = k then some v else get m k

/-- `store.Delete`. -/
def del (m : List (κ × α)) (k : κ) : List (κ × α) := m.filter (fun e => !decide (e.1 = k))

/-- `store.Set`. -/
def put (m : List (κ × α)) (k : κ) (v : α) : List (κ × α) := (k, v) :: del m k

def has (m : List (κ × α)) (k : κ) : Bool := (get m k).isSome
end AMap

/-- `sdk.StakeStatus`. -/
def stUnstaked : Nat := 0
def stUnstaking : Nat := 1
def stStaked : Nat := 2

/-- `types.Application` (the address is the map key). -/
structure App where
  pk : Bytes
  status : Nat
  jailed : Bool
  tokens : Int
  maxRelays : Int
  chains : List String
  unstakingTime : Int
deriving DecidableEq, Repr, Inhabited

/-- `types.Params` of the application module. -/
structure Params where
  minStake : Int
  maxChains : Int
  maxApps : Int
  baseRelays : Int
  stability : Int
  unstakingTime : Int
  participation : Bool
deriving DecidableEq, Repr, Inhabited

structure St where
  apps : List (Addr × App)
  /-- staked index: key (consensus power, address) ↦ address -/
  idx : List ((Int × Addr) × Addr)
  /-- unstaking queue: completion time ↦ addresses -/
  queue : List (Int × List Addr)
  pool : Int
  feeColl : Int
  supply : Int
  nodeStaked : Int
  bals : List (Addr × Int)
  params : Params
  /-- block time of the block in progress -/
  time : Int
deriving Repr, Inhabited

/-- Result class of a DeliverTx: codespace + code. -/
inductive Rc where
  | ok
  | app (code : Nat)
  | sdk (code : Nat)
  | auth (code : Nat)
deriving DecidableEq, Repr, Inhabited

def Rc.render : Rc → String
  | .ok => "ok"
  | .app c => s!"application:{c}"
  | .sdk c => s!"sdk:{c}"
  | .auth c => s!"auth:{c}"

/-- `types.MsgStake`: public key (+ its address), chains, value. -/
structure MsgStake where
  pk : Bytes
  addr : Addr
  chains : List String
  value : Int
deriving DecidableEq, Repr

/-! ## Pure helpers -/

/-- `sdk.TokensToConsensusPower`: `tokens / 10^6` (big.Int.Quo, toward zero). -/
def power (tokens : Int) : Int := tokens.tdiv 1000000

/-- `types.KeyForAppInStakingSet` (power ‖ ¬address): identified with the pair. -/
def idxKey (a : Addr) (app : App) : Int × Addr := (power app.tokens, a)

def maxU64 : Int := 18446744073709551615

/-- `BigDec.Quo` without the overflow panic (`x/0` is `0` here, a Go panic there). -/
def decQuo (a b : Int) : Int := BigDec.chopRound ((a * BigDec.P * BigDec.P).tdiv b)
/-- `BigDec.Mul` without the overflow panic. -/
def decMul (a b : Int) : Int := BigDec.chopRound (a * b)

/-- `Keeper.CalculateAppRelays` given the pool / node pool / supply it reads. -/
def calcRelays (p : Params) (pool nodeStaked supply tokens : Int) : Int :=
  let adj := BigDec.ofInt p.stability
  let rate := if p.participation then decQuo (BigDec.ofInt (pool + nodeStaked)) (BigDec.ofInt supply) else BigDec.one
  let basePct := decQuo (BigDec.ofInt p.baseRelays) (BigDec.ofInt 100)
  let thr := decMul basePct (decQuo (BigDec.ofInt tokens) (BigDec.ofInt 1000000))
  let res := BigDec.truncateInt (decMul rate thr + adj)
  if res ≥ maxU64 then maxU64 else res

def St.relays (s : St) (tokens : Int) : Int := calcRelays s.params s.pool s.nodeStaked s.supply tokens

def hexDigit (c : Char) : Bool := c.isDigit || ('a' ≤ c && c ≤ 'f') || ('A' ≤ c && c ≤ 'F')

/-- `types.ValidateNetworkIdentifier`: hex, 1 or 2 bytes. -/
def validChain (c : String) : Bool :=
  let cs := c.toList
  cs.all hexDigit && (cs.length = 2 || cs.length = 4)

/-- `MsgStake.IsValidTransfer`. -/
def MsgStake.isTransferShaped (m : MsgStake) : Bool := m.value = 0 && m.chains.isEmpty

/-- `MsgStake.ValidateBasic` (run by `validateBasicTxMsgs` before the ante handler). -/
def MsgStake.validateBasic (m : MsgStake) : Rc :=
  if m.isTransferShaped then .ok
  else if m.value ≤ 0 then .app 115
  else if m.chains.isEmpty then .app 116
  else if m.chains.all validChain then .ok else .app 117

def balOf (s : St) (a : Addr) : Int := (get s.bals a).getD 0

/-- `AccountKeeper.HasCoins` for one `upokt` coin (`NewCoins` drops a zero coin). -/
def hasCoins (s : St) (a : Addr) (amt : Int) : Bool := amt ≤ 0 || balOf s a ≥ amt

/-! ## Store primitives of the keeper -/

/-- `Keeper.SetUnstakingApplication`: append to the queue slot of the completion time. -/
def queueAdd (q : List (Int × List Addr)) (t : Int) (a : Addr) : List (Int × List Addr) :=
  put q t (((get q t).getD []) ++ [a])

/-- `Keeper.deleteUnstakingApplication`. -/
def queueRemove (q : List (Int × List Addr)) (t : Int) (a : Addr) : List (Int × List Addr) :=
  let l := ((get q t).getD []).filter (fun x => !decide (x = a))
  if l.isEmpty then del q t else put q t l

/-- `Keeper.SetApplication`: main store, then the queue (if unstaking) and the staked index (if
staked and not jailed). -/
def setApplication (s : St) (a : Addr) (app : App) : St :=
  let s1 := { s with apps := put s.apps a app }
  let s2 := if app.status = stUnstaking then { s1 with queue := queueAdd s1.queue app.unstakingTime a } else s1
  if app.status = stStaked ∧ app.jailed = false then { s2 with idx := put s2.idx (idxKey a app) a } else s2

/-- `Keeper.SetStakedApplication`. -/
def setStaked (s : St) (a : Addr) (app : App) : St :=
  if app.jailed then s else { s with idx := put s.idx (idxKey a app) a }

/-- `Keeper.deleteApplicationFromStakingSet`. -/
def delStaked (s : St) (a : Addr) (app : App) : St := { s with idx := del s.idx (idxKey a app) }

/-- `Keeper.DeleteApplication`. -/
def deleteApplication (s : St) (a : Addr) : St := { s with apps := del s.apps a }

/-- `coinsFromUnstakedToStaked` = `SendCoins(addr → pool)`: `SubtractCoins` fails before any
write when the balance is short; a zero amount still (re)writes the account. -/
def toPool (s : St) (a : Addr) (amt : Int) : Option St :=
  if amt < 0 then none
  else if balOf s a < amt then none
  else some { s with bals := put s.bals a (balOf s a - amt), pool := s.pool + amt }

/-- `coinsFromStakedToUnstaked` = `SendCoins(pool → addr)`. -/
def fromPool (s : St) (a : Addr) (amt : Int) : Option St :=
  if s.pool < amt then none
  else some { s with pool := s.pool - amt, bals := put s.bals a (balOf s a + amt) }

/-! ## Ante handler fragment (`x/auth/ante.go`) -/

/-- `Keeper.IsMsgAppTransfer`. -/
def isMsgAppTransfer (s : St) (signer : Addr) (m : MsgStake) : Bool :=
  m.isTransferShaped && !decide (signer = m.addr) && has s.apps signer

/-- `DeductFees`: the signer's account must exist and cover the fee. -/
def deductFee (s : St) (signer : Addr) (fee : Int) : Rc × St :=
  match get s.bals signer with
  | none => (.sdk 9, s)
  | some b =>
    if b < fee then (.auth 6, s)
    else (.ok, { s with bals := put s.bals signer (b - fee), feeColl := s.feeColl + fee })

/-- Signer admission of `ValidateTransaction` for an application `MsgStake` + `DeductFees`. -/
def anteStake (s : St) (signer : Addr) (m : MsgStake) (fee : Int) : Rc × St :=
  if signer = m.addr ∨ isMsgAppTransfer s signer m then deductFee s signer fee else (.sdk 4, s)

/-! ## `MsgStake` handler -/

/-- `Keeper.ValidateApplicationTransfer`: the current record when the message is a transfer. -/
def validateTransfer (s : St) (signer : Addr) (m : MsgStake) : Option App :=
  match get s.apps signer with
  | none => none
  | some cur =>
    if cur.status ≠ stStaked then none
    else if has s.apps m.addr then none
    else some cur

/-- `Keeper.TransferApplication`. -/
def transferApplication (s : St) (signer : Addr) (cur : App) (m : MsgStake) : St :=
  let newApp := { cur with status := stStaked, pk := m.pk }
  let s1 := setApplication s m.addr newApp
  let s2 := delStaked s1 signer cur
  deleteApplication s2 signer

/-- `Keeper.ValidateEditStake`. -/
def validateEditStake (s : St) (a : Addr) (cur : App) (amount : Int) : Rc :=
  let diff := amount - cur.tokens
  if diff < 0 then .app 120
  else if diff ≠ 0 ∧ !hasCoins s a diff then .app 112
  else .ok

/-- `Keeper.ValidateApplicationStaking`. -/
def validateStaking (s : St) (m : MsgStake) : Rc :=
  if m.value < 0 then .sdk 1  -- `sdk.NewCoin` panics on a negative amount (recovered by runTx)
  else if (m.chains.length : Int) > s.params.maxChains then .app 118
  else
    let common : Rc :=
      if m.value < s.params.minStake then .app 111
      else if !hasCoins s m.addr m.value then .app 112
      else if (s.idx.length : Int) ≥ s.params.maxApps then .app 119
      else .ok
    match get s.apps m.addr with
    | some cur =>
      if cur.status = stStaked then validateEditStake s m.addr cur m.value
      else if cur.status ≠ stUnstaked then .app 110
      else common
    | none => common

/-- `Keeper.EditStakeApplication`. -/
def editStake (s : St) (a : Addr) (cur : App) (m : MsgStake) : Rc × St :=
  let diff := m.value - cur.tokens
  let bumped : Option (St × App) :=
    if diff > 0 then
      match toPool s a diff with
      | none => none
      | some s1 =>
        let tok := cur.tokens + diff
        some (s1, { cur with tokens := tok, maxRelays := s1.relays tok })
    else some (s, cur)
  match bumped with
  | none => (.sdk 10, s)
  | some (s1, app1) =>
    let app2 := { app1 with chains := m.chains }
    let s2 := delStaked s1 a cur
    let s3 := deleteApplication s2 a
    let s4 := setApplication s3 a app2
    (.ok, setStaked s4 a app2)

/-- The record `StakeApplication` writes for a (re)staking address: a fresh `NewApplication`
with the staked amount and the allowance computed after the coins moved. -/
def freshApp (s1 : St) (m : MsgStake) : App :=
  { pk := m.pk, status := stStaked, jailed := false, tokens := m.value,
    maxRelays := s1.relays m.value, chains := m.chains, unstakingTime := 0 }

/-- `Keeper.StakeApplication`, non-edit branch: coins to the pool, then the record. -/
def stakeFresh (s : St) (m : MsgStake) : Rc × St :=
  match toPool s m.addr m.value with
  | none => (.sdk 10, s)
  | some s1 => (.ok, setApplication s1 m.addr (freshApp s1 m))

/-- `Keeper.StakeApplication`. -/
def stakeApplication (s : St) (m : MsgStake) : Rc × St :=
  match get s.apps m.addr with
  | some cur => if cur.status = stStaked then editStake s m.addr cur m else stakeFresh s m
  | none => stakeFresh s m

/-- `handleStake` (state after the ante handler). -/
def handleStake (s : St) (signer : Addr) (m : MsgStake) : Rc × St :=
  match validateTransfer s signer m with
  | some cur => (.ok, transferApplication s signer cur m)
  | none =>
    match validateStaking s m with
    | .ok => stakeApplication s m
    | e => (e, s)

/-- DeliverTx of an application `MsgStake` signed by `signer`: ValidateBasic, ante, handler. -/
def deliverStake (s : St) (signer : Addr) (m : MsgStake) (fee : Int) : Rc × St :=
  match m.validateBasic with
  | .ok =>
    match anteStake s signer m fee with
    | (.ok, s1) => handleStake s1 signer m
    | (e, s1) => (e, s1)
  | e => (e, s)

/-! ## `MsgBeginUnstake` -/

/-- `Keeper.BeginUnstakingApplication`. -/
def beginUnstaking (s : St) (a : Addr) (app : App) : St :=
  let s1 := delStaked s a app
  let t := if app.unstakingTime = 0 then s.time + s.params.unstakingTime else app.unstakingTime
  setApplication s1 a { app with status := stUnstaking, unstakingTime := t }

/-- `handleMsgBeginUnstake`. -/
def handleUnstake (s : St) (a : Addr) : Rc × St :=
  match get s.apps a with
  | none => (.app 101, s)
  | some app =>
    if app.status ≠ stStaked then (.sdk 1, s)
    else if app.jailed then (.sdk 1, s)
    else (.ok, beginUnstaking s a app)

/-- DeliverTx of `MsgBeginUnstake{Address := a}` signed by `signer`. -/
def deliverUnstake (s : St) (signer a : Addr) (fee : Int) : Rc × St :=
  if signer = a then
    match deductFee s signer fee with
    | (.ok, s1) => handleUnstake s1 a
    | r => r
  else (.sdk 4, s)

/-! ## End blocker: `unstakeAllMatureApplications` -/

/-- `Keeper.FinishUnstakingApplication` followed by `DeleteApplication` (modern rule). -/
def finishUnstaking (s : St) (a : Addr) (app : App) : St :=
  let s1 := { s with queue := queueRemove s.queue app.unstakingTime a }
  let s2 := match fromPool s1 a app.tokens with
    | some x => x
    | none => s1   -- the error is logged and unstaking continues
  let s3 := setApplication s2 a { app with tokens := 0, status := stUnstaked, maxRelays := 0, unstakingTime := 0 }
  deleteApplication s3 a

/-- One address of a mature queue slot. -/
def matureOne (s : St) (a : Addr) : St :=
  match get s.apps a with
  | none => s
  | some app =>
    if app.status ≠ stUnstaking then s
    else if app.jailed then s
    else finishUnstaking s a app

/-- `Keeper.unstakeAllMatureApplications`: the iterator is a snapshot of the slots with
completion time ≤ block time, in key order; each slot is deleted after its addresses. -/
def endBlock (s : St) : St :=
  let slots := (s.queue.filter (fun e => decide (e.1 ≤ s.time))).mergeSort (fun x y => decide (x.1 ≤ y.1))
  slots.foldl (fun st e =>
    let st1 := e.2.foldl matureOne st
    { st1 with queue := del st1.queue e.1 }) s

/-! ## Keeper-level operations that no transaction of this version reaches -/

/-- `Keeper.burnStakedTokens`. -/
def burnStaked (s : St) (amt : Int) : Option St :=
  if amt ≤ 0 then some s
  else if s.pool < amt then none
  else some { s with pool := s.pool - amt, supply := s.supply - amt }

/-- `Keeper.ForceApplicationUnstake` (modern branch) on the stored record of `a`. -/
def forceUnstake (s : St) (a : Addr) : Bool × St :=
  match get s.apps a with
  | none => (false, s)
  | some app =>
    if app.status = stStaked then
      let s1 := delStaked s a app
      match burnStaked s1 app.tokens with
      | none => (false, s1)
      | some s2 => (true, setApplication s2 a { app with tokens := 0, status := stUnstaked })
    else if app.status = stUnstaking then
      let s1 := deleteApplication { s with queue := queueRemove s.queue app.unstakingTime a } a
      match burnStaked s1 app.tokens with
      | none => (false, s1)
      | some s2 => (true, s2)
    else (false, deleteApplication s a)

/-- `Keeper.JailApplication`. -/
def jail (s : St) (a : Addr) : St :=
  match get s.apps a with
  | none => s
  | some app =>
    if app.jailed then s
    else
      let app1 := { app with jailed := true }
      delStaked (setApplication s a app1) a app1

/-- `Keeper.UnjailApplication` (keeper level: the `MsgUnjail` handler passes a nil address). On an
unstaking record `SetApplication` appends the address to its queue slot once more. -/
def unjail (s : St) (a : Addr) : St :=
  match get s.apps a with
  | none => s
  | some app =>
    if app.jailed then setApplication s a { app with jailed := false } else s

/-! ## Operations of a history -/

/-- What other modules may change between application operations (sends, fees, rewards,
governance): balances, fee collector, supply, node pool, parameters.  A send **to the pool's
module-account address** is the separate operation `donate`. -/
structure Ext where
  bals : List (Addr × Int)
  feeColl : Int
  supply : Int
  nodeStaked : Int
  params : Params
deriving Repr

inductive Op where
  | stake (signer : Addr) (m : MsgStake) (fee : Int)
  | unstake (signer a : Addr) (fee : Int)
  | beginBlock (time : Int)
  | endBlock
  | force (a : Addr)
  | jail (a : Addr)
  | unjail (a : Addr)
  | ext (e : Ext)
  /-- `MsgSend` whose recipient is the application pool's module account -/
  | donate (src : Addr) (amt : Int)

/-- `SendCoins(from → pool address)` of a plain `MsgSend` (after ante). -/
def donate (s : St) (src : Addr) (amt : Int) : St :=
  if amt ≤ 0 ∨ balOf s src < amt then s
  else { s with bals := put s.bals src (balOf s src - amt), pool := s.pool + amt }

def step (s : St) : Op → St
  | .stake signer m fee => (deliverStake s signer m fee).2
  | .unstake signer a fee => (deliverUnstake s signer a fee).2
  | .beginBlock t => { s with time := t }
  | .endBlock => endBlock s
  | .force a => (forceUnstake s a).2
  | .jail a => jail s a
  | .unjail a => unjail s a
  | .ext e => { s with bals := e.bals, feeColl := e.feeColl, supply := e.supply, nodeStaked := e.nodeStaked, params := e.params }
  | .donate src amt => donate s src amt

def run (s : St) (ops : List Op) : St := ops.foldl step s

/-! ## Executable invariants (also used as runtime monitors on the implementation's dumps) -/

def bonded (app : App) : Bool := app.status = stStaked || app.status = stUnstaking

/-- Σ tokens of staked ∪ unstaking records. -/
def sumBonded : List (Addr × App) → Int
  | [] => 0
  | (_, app) :: m => (if bonded app then app.tokens else 0) + sumBonded m

/-- pool balance − Σ bonded tokens. -/
def excess (s : St) : Int := s.pool - sumBonded s.apps

end Apps
