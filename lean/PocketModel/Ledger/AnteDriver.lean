import PocketModel.Basic.Proto
import PocketModel.Ledger.Ante
/-!
# Line-protocol driver shared by C14, C15 and C16

Each `tx` line (written by `harness/internal/antelab`) is one real `DeliverTx`: rule set, the state
the ante handler can read, the decoded transaction, the oracle table "key K verifies this
signature over this chain's sign bytes" (computed by the harness from its own reconstruction of
the sign document), then after `=>` the real ante handler's outcome on a dropped cache (`probe`,
`pacc`), the `DeliverTx` result code, whether any persistent store changed, and the accounts after.

The driver (a) runs the model's ante step and the model's DeliverTx rule on the dumped pre-state and
compares (DIFF), and (b) evaluates the executable specification on the implementation's own outputs
(PROPFAIL).  Which specification clauses are active depends on the property (`Mode`).
-/
namespace AnteDriver
open Ledger

/-- A public key on a trace line: identity, address, nesting, and whether it verifies this
transaction's signature over this chain's sign document. -/
structure DKey where
  id : String
  addr : Addr
  shape : KeyTree
  ok : Bool
  deriving Inhabited

/-- The driver's scheme: verification is the oracle bit of the key. -/
def DS : Scheme := { PK := DKey, addr := (·.addr), shape := (·.shape), verify := fun k _ _ => k.ok }

inductive Mode where
  | c14 | c15 | c16
  deriving DecidableEq

/-- History kept across lines. -/
structure St where
  cache : List String := []                     -- raw ids delivered in the block in progress
  indexed : List String := []                   -- raw ids the model's feed rule has indexed
  pending : List (String × Result) := []        -- results of the block in progress
  passedRaw : List String := []                 -- raw ids that were executed (spec history)
  passedContent : List (String × String) := []  -- content id ↦ raw id of executed transactions

def kv (ws : List String) (k : String) : Option String :=
  (ws.find? (·.startsWith (k ++ "="))).map (fun s => (s.drop (k.length + 1)).toString)

def splitNE (s : String) (sep : String) : List String :=
  if s = "-" || s = "" then [] else s.splitOn sep

def parseAddr (s : String) : Option Addr := if s = "~" then some [] else Bytes.parse s

def parseCoin (s : String) : Option Coin :=
  match s.splitOn ":" with
  | [d, a] => do
    let dn ← Bytes.parse d
    let am ← a.toInt?
    pure ⟨dn, am⟩
  | _ => none

def parseCoins (s : String) : Option Coins := (splitNE s ",").mapM parseCoin

def renderCoins (cs : Coins) : String :=
  if cs.isEmpty then "-" else ",".intercalate (cs.map fun c => s!"{Bytes.toHex c.denom}:{c.amount}")

/-- Parse a key shape such as `.` or `(..(.))`; returns the tree and the rest. -/
partial def parseShapeAux : List Char → Option (KeyTree × List Char)
  | '.' :: rest => some (.leaf, rest)
  | '(' :: rest =>
    let rec many (cs : List Char) (acc : List KeyTree) : Option (List KeyTree × List Char) :=
      match cs with
      | ')' :: r => some (acc.reverse, r)
      | _ =>
        match parseShapeAux cs with
        | some (t, r) => many r (t :: acc)
        | none => none
    (many rest []).map fun (ks, r) => (.node ks, r)
  | _ => none

def parseShape (s : String) : Option KeyTree :=
  match parseShapeAux s.toList with
  | some (t, []) => some t
  | _ => none

/-- The verdict field of a key: `0`/`1` for a simple key; for a multisig key `M<n>:<bits>` — the
number of signatures in the decoded multi-signature and per position "non-empty and verifies under
the member key" — composed here by `Ledger.multisigOk` (never the real multisig `VerifyBytes`). -/
def parseVerdict (shape : KeyTree) (s : String) : Option Bool :=
  if s = "1" then some true else if s = "0" then some false
  else if s.startsWith "M" then
    match (s.drop 1).toString.splitOn ":" with
    | [n, bits] =>
      let nKeys := match shape with | .node ks => ks.length | .leaf => 0
      let bs := if bits = "-" then [] else bits.toList.map (· == '1')
      match n.toInt? with
      | some i => some (i ≥ 0 && multisigOk nKeys i.toNat bs)
      | none => none
    | _ => none
  else none

def parseKey (s : String) : Option DKey :=
  match s.splitOn "/" with
  | [id, a, sh, ok] => do
    let ad ← parseAddr a
    let t ← parseShape sh
    let v ← parseVerdict t ok
    pure ⟨id, ad, t, v⟩
  | _ => none

def parseAccts (keys : List DKey) (s : String) : Option (List (Addr × Account DKey)) :=
  (splitNE s ";").mapM fun e =>
    match e.splitOn "/" with
    | [a, c, k] => do
      let ad ← parseAddr a
      let cs ← parseCoins c
      let pk := if k = "~" then none else keys.find? (·.id = k)
      pure (ad, ⟨cs, pk⟩)
    | _ => none

def renderAccts (as : List (Addr × Account DKey)) : String :=
  if as.isEmpty then "-" else
  ";".intercalate (as.map fun (a, acc) =>
    s!"{Bytes.toHex a}/{renderCoins acc.coins}/{match acc.pk with | none => "~" | some k => k.id}")

def parseResult (s : String) : Option Result :=
  match s.splitOn "/" with
  | [sp, c] => c.toNat?.map fun n => ⟨if sp = "-" then "" else sp, n⟩
  | _ => none

def renderResult (r : Result) : String := s!"{if r.space = "" then "-" else r.space}/{r.code}"

def flag (ws : List String) (k : String) : Bool := kv ws k = some "1"

/-- Everything parsed from the part before `=>`. -/
structure Line where
  env : Env
  world : World DS Unit
  addrs : List Addr
  raw : String
  variant : String
  idx : Bool
  tx : Option (Tx DKey)
  keys : List DKey
  content : String
  sbOk : Bool

def parseLine (pre : List String) : Except String Line := do
  let get (k : String) : Except String String :=
    match kv pre k with | some v => pure v | none => throw s!"missing {k}"
  let h ← (do let v ← get "h"; match v.toInt? with | some i => pure i | none => throw "h")
  let chain ← (do let v ← get "chain"; match Bytes.parse v with | some b => pure b | none => throw "chain")
  let fc ← (do let v ← get "fc"; match parseAddr v with | some b => pure b | none => throw "fc")
  let env : Env := ⟨h, chain, flag pre "ncust", flag pre "oedit", flag pre "apptr", flag pre "upg", flag pre "redup", fc⟩
  let maxmemo ← (do let v ← get "maxmemo"; match v.toNat? with | some i => pure i | none => throw "maxmemo")
  let siglimit ← (do let v ← get "siglimit"; match v.toNat? with | some i => pure i | none => throw "siglimit")
  let feedef ← (do let v ← get "feedef"; match v.toInt? with | some i => pure i | none => throw "feedef")
  let feemulS ← get "feemul"
  let feemul ← (match (splitNE feemulS ",").mapM (fun e => match e.splitOn ":" with
      | [k, m] => do let kb ← Bytes.parse k; let mi ← m.toInt?; pure (kb, mi)
      | _ => none) with | some l => pure l | none => throw "feemul")
  let params : Params := ⟨maxmemo, siglimit, feemul, feedef⟩
  let decoded := kv pre "decode" = some "ok"
  let keysS := (kv pre "keys").getD "-"
  let keys ← (match (splitNE keysS ";").mapM parseKey with | some l => pure l | none => throw "keys")
  let acctsS ← get "accts"
  let accts ← (match parseAccts keys acctsS with | some l => pure l | none => throw "accts")
  let valsS ← get "vals"
  let vals ← (match (splitNE valsS ";").mapM (fun e => match e.splitOn "/" with
      | [o, out] => do let a ← parseAddr o; let b ← parseAddr out; pure (a, if b = [] then none else some b)
      | _ => none) with | some l => pure l | none => throw "vals")
  let appsS ← get "apps"
  let apps ← (match (splitNE appsS ";").mapM parseAddr with | some l => pure l | none => throw "apps")
  let world : World DS Unit :=
    { accounts := fun a => (accts.find? (·.1 = a)).map (·.2), params := params,
      valOutput := fun a => (vals.find? (·.1 = a)).map (·.2), isApp := fun a => apps.contains a, rest := () }
  let raw ← get "raw"
  let variant ← get "variant"
  let tx ← (if !decoded then pure none else do
    let ty ← (do let v ← get "type"; match Bytes.parse v with | some b => pure b | none => throw "type")
    let signersS ← get "signers"
    let signers ← (match (splitNE signersS ",").mapM parseAddr with | some l => pure l | none => throw "signers")
    let mfee ← (do let v ← get "mfee"; match v.toInt? with | some i => pure i | none => throw "mfee")
    let mkS ← get "mk"
    let kind ← (match mkS.splitOn ":" with
      | ["nodestake", a] => match parseAddr a with | some b => pure (MsgKind.nodeStake b) | none => throw "mk"
      | ["appstake", a, vt] => match parseAddr a with | some b => pure (MsgKind.appStake b (vt = "1")) | none => throw "mk"
      | ["other"] => pure MsgKind.other
      | _ => throw "mk")
    let basicS ← get "basic"
    let basic ← (if basicS = "ok" then pure none else match parseResult basicS with | some r => pure (some r) | none => throw "basic")
    let fee ← (do let v ← get "fee"; match parseCoins v with | some c => pure c | none => throw "fee")
    let pkS ← get "pk"
    let pk := if pkS = "~" then none else keys.find? (·.id = pkS)
    let memolen ← (do let v ← get "memolen"; match v.toNat? with | some i => pure i | none => throw "memolen")
    let msg : Msg := ⟨ty, signers, mfee, kind, basic, []⟩
    pure (some ⟨msg, fee, pk, if flag pre "sigempty" then [] else [1], List.replicate memolen 0, 0⟩))
  pure { env := env, world := world, addrs := accts.map (·.1), raw := raw, variant := variant, idx := flag pre "idx",
         tx := tx, keys := keys, content := (kv pre "content").getD "-", sbOk := (kv pre "sb").getD "1" = "1" }

/-- The accounts of a model world listed over the addresses of the dump. -/
def listAccts (addrs : List Addr) (m : Addr → Option (Account DKey)) : List (Addr × Account DKey) :=
  addrs.filterMap fun a => (m a).map fun acc => (a, acc)

def SBdummy : Bytes → Int → Coins → Bytes → Bytes → Bytes := fun _ _ _ _ _ => []

/-- Per-denomination balance differences `post - pre` at one address, over the denominations seen. -/
def deltaOK (pre post : List (Addr × Account DKey)) (a : Addr) (delta : Denom → Int) (denoms : List Denom) : Bool :=
  let c (l : List (Addr × Account DKey)) := match l.find? (·.1 = a) with | some (_, acc) => acc.coins | none => []
  denoms.all fun d => Coins.sumOf (c post) d - Coins.sumOf (c pre) d = delta d

def denomsOf (ls : List (List (Addr × Account DKey))) (fee : Coins) : List Denom :=
  ((ls.flatten.flatMap fun (_, acc) => acc.coins.map (·.denom)) ++ fee.map (·.denom)).eraseDups

def step (mode : Mode) (st : St) (pre post : List String) : St × Verdict :=
  match pre with
  | "endblock" :: _ =>
    -- EndBlock + Commit + indexer feed of the implementation's own result codes
    let fed := (st.pending.filter fun p => !p.2.anteLevel).map (·.1)
    ({ st with cache := [], indexed := st.indexed ++ fed, pending := [] }, .ok)
  | "reset" :: _ => ({}, .ok)
  | op :: _ =>
    if op != "tx" && op != "probe" then (st, .bad "unknown line") else
    let probeOnly := op == "probe"
    match parseLine pre with
    | .error e => (st, .bad s!"parse {e}")
    | .ok ln =>
      match kv post "code" >>= parseResult, kv post "changed", kv post "probe", kv post "pacc", kv post "post" with
      | some code, some changedS, some probe, some pacc, some postS =>
        let changed := changedS = "1"
        let preAccts := listAccts ln.addrs ln.world.accounts
        match parseAccts ln.keys postS with
        | none => (st, .bad "post accounts")
        | some postAccts =>
        let dup := st.cache.contains ln.raw
        let cache' := if dup then st.cache else ln.raw :: st.cache
        let modelIdx := st.indexed.contains ln.raw
        let dup := dup && !probeOnly
        let st' : St := if probeOnly then st else { st with cache := cache', pending := st.pending ++ [(ln.raw, code)] }
        -- ---------------- model: the ante step and the DeliverTx rule
        let ante? := ln.tx.map fun tx => anteHandler DS SBdummy ln.env ln.world tx modelIdx false
        let modelProbe : String × String :=
          match ln.tx, ante? with
          | some tx, some a =>
            if tx.msg.basic.isSome then ("-", if probeOnly then renderAccts preAccts else "-")
            else match a with
              | .abort r => (if r == errInternal then "panic" else s!"abort:{renderResult r}", renderAccts preAccts)
              | .cont w' pk => (s!"pass:{pk.id}", renderAccts (listAccts ln.addrs w'.accounts))
          | _, _ => ("-", "-")
        -- a recovered panic inside the probe is reported as `panic` with no account list
        let probeAcctsImpl := if probe = "panic" then renderAccts preAccts else pacc
        let modelPassed : Bool :=
          match ln.tx, ante? with
          | some tx, some (.cont _ _) => tx.msg.basic.isNone && !(dup && ln.env.redup)
          | _, _ => false
        let modelCode : Option Result :=   -- `none` = decided by the message handler
          match ln.tx, ante? with
          | none, _ => some errTxDecode
          | some tx, some a =>
            if dup && ln.env.redup then some errDuplicateTx
            else match tx.msg.basic with
              | some r => some r
              | none => match a with | .abort r => some r | .cont _ _ => none
          | _, _ => none
        let diff : Option String :=
          if !ln.sbOk then some "sign document reconstructed by the harness differs from StdSignBytes"
          else if modelIdx != ln.idx then some s!"indexer: model indexed={modelIdx} impl indexed={ln.idx} raw={ln.raw}"
          else if modelProbe.1 != probe then some s!"ante outcome: model={modelProbe.1} impl={probe}"
          else if modelProbe.2 != probeAcctsImpl then some s!"ante accounts: model={modelProbe.2} impl={probeAcctsImpl}"
          else if probeOnly then none
          else match modelCode with
            | some r =>
              if r != code then some s!"deliver code: model={renderResult r} impl={renderResult code}"
              else if changed then some "deliver: model rejects without state change, impl changed state"
              else none
            | none => none
        -- ---------------- specification on the implementation's own outputs
        let implProbePass := probe.startsWith "pass:"
        let implRejected := !implProbePass || code.anteLevel || ln.tx.isNone
        let stateMoved := changed || renderAccts postAccts != renderAccts preAccts
        let authorized : Bool :=
          match ln.tx with
          | none => false
          | some tx => ln.keys.any fun k => k.ok && k.addr != [] && allowed ln.world tx.msg k.addr
        let fee : Coins := match ln.tx with | some tx => tx.fee | none => []
        let denoms := denomsOf [preAccts, postAccts] fee
        let fc := ln.env.feeCollector
        let prop : Option (String × String) :=
          -- C14
          if mode == .c14 && stateMoved && !authorized then
            some (if ln.env.height = haltHeight then "unauthorized-at-halt-height" else "unauthorized-tx-changed-state",
                  s!"raw={ln.raw} h={ln.env.height}")
          else if mode == .c14 && !probeOnly && code.isOK && implProbePass &&
              (match ln.tx with
               | none => false
               | some tx =>
                 let keyAddr := (ln.keys.find? (fun k => s!"pass:{k.id}" = probe)).map (·.addr)
                 if tx.msg.type == Bytes.ofString "begin_unstake_validator" || tx.msg.type == Bytes.ofString "unjail_validator" then
                   match tx.msg.signers with
                   | [ms, node] =>
                     (match ln.world.valOutput node with
                      | some out => !validateValidatorMsgSigner node out ms
                      | none => true)
                   | _ => false
                 else match tx.msg.kind, keyAddr with
                   | .nodeStake op, some ka =>
                     let newOut := match tx.msg.signers with | [_, o] => (if o = [] then none else some o) | _ => none
                     !stakeSignerChecks ln.env.ncust ln.env.oedit op (ln.world.valOutput op) newOut ka
                   | _, _ => false) then
            some ("handler-accepted-unauthorized-signer", s!"raw={ln.raw} h={ln.env.height}")
          -- C15
          else if mode == .c15 && !probeOnly && stateMoved && code.anteLevel == false &&
              (match ln.tx with
               | some tx => tx.msg.basic.isNone && Coins.sumOf tx.fee upokt < getFee ln.world.params tx.msg
               | none => false) &&
              !(match ln.tx with
                | some tx => (match tx.pk with | some k => (match k.shape with | .node _ => true | .leaf => false) | none => false)
                | none => false) then
            -- the real DeliverTx executed a transaction whose declared fee is below the fee required by
            -- the parameters in the dumped pre-state (whatever the ante probe said)
            some ("fee-below-required", s!"raw={ln.raw} fee={renderCoins fee} required={match ln.tx with | some tx => getFee ln.world.params tx.msg | none => 0}")
          else if mode == .c15 && implRejected && stateMoved then
            some ("ante-reject-moved-funds", s!"raw={ln.raw} code={renderResult code}")
          else if mode == .c15 && !implRejected && !deltaOK preAccts postAccts fc (fun d => Coins.sumOf fee d) denoms then
            some ("fee-not-exact", s!"raw={ln.raw} fee collector did not receive exactly {renderCoins fee}")
          else if mode == .c15 && implProbePass &&
              (match ln.tx, parseAccts ln.keys pacc with
               | some tx, some pa =>
                 let payer? := (ln.keys.find? (fun k => s!"pass:{k.id}" = probe)).map (·.addr)
                 match payer? with
                 | none => true
                 | some payer =>
                   !(payer != fc && deltaOK preAccts pa payer (fun d => - Coins.sumOf tx.fee d) denoms &&
                     deltaOK preAccts pa fc (fun d => Coins.sumOf tx.fee d) denoms &&
                     (preAccts.all fun (a, acc) => a == payer || a == fc ||
                        (match pa.find? (·.1 = a) with | some (_, acc') => renderCoins acc'.coins == renderCoins acc.coins | none => false)))
               | _, _ => true) then
            let moved : List String :=
              match parseAccts ln.keys pacc with
              | some pa => preAccts.filterMap fun (a, acc) =>
                  match pa.find? (·.1 = a) with
                  | some (_, acc') => if renderCoins acc'.coins == renderCoins acc.coins then none
                                      else some s!"{Bytes.toHex a}:{renderCoins acc.coins}->{renderCoins acc'.coins}"
                  | none => some s!"{Bytes.toHex a}:removed"
              | none => []
            let signerAddr := match ln.keys.find? (fun k => s!"pass:{k.id}" = probe) with | some k => Bytes.toHex k.addr | none => "?"
            some ("fee-not-exact", s!"raw={ln.raw} the ante handler must debit exactly the fee {renderCoins fee} from the account of the key that verified ({signerAddr}), credit the fee collector and touch nobody else; balances changed by the real ante handler: {moved}")
          else if mode == .c15 && !implRejected &&
              (match ln.tx with
               | some tx => Coins.sumOf tx.fee upokt < getFee ln.world.params tx.msg
               | none => false) then
            let multi := ln.keys.any fun k => s!"pass:{k.id}" = probe && (match k.shape with | .node _ => true | .leaf => false)
            some (if multi then "multisig-fee-below-required" else "fee-below-required", s!"raw={ln.raw} fee={renderCoins fee}")
          else if mode == .c15 && !implRejected && st.passedRaw.contains ln.raw then
            some ("fee-charged-twice", s!"raw={ln.raw}")
          -- C16
          else if mode == .c16 && (stateMoved || !implRejected) && st.passedRaw.contains ln.raw then
            some ("same-bytes-executed-twice", s!"raw={ln.raw}")
          else if mode == .c16 && (stateMoved || !implRejected) &&
              (ln.content != "-" && st.passedContent.any fun p => p.1 = ln.content && p.2 != ln.raw) then
            some (s!"reencode-replays-{ln.variant}", s!"raw={ln.raw} content={ln.content}")
          else none
        let st'' : St :=
          if probeOnly then st'
          else if stateMoved || !implRejected then
            { st' with passedRaw := ln.raw :: st'.passedRaw, passedContent := (ln.content, ln.raw) :: st'.passedContent }
          else st'
        let _ := modelPassed
        match prop with
        | some (sig, d) => (st'', .propfail sig d)
        | none =>
          match diff with
          | some d => (st'', .diff d)
          | none => (st'', .ok)
      | _, _, _, _, _ => (st, .bad "result fields")
  | [] => (st, .bad "empty line")

end AnteDriver
