/-!
# Store plumbing of `baseapp.BaseApp` (runTx / Query / ABCI block calls) — as it is

Mirrors `/repo/baseapp/baseapp.go`.  Everything the application modules do is a *parameter*
(`Hooks`): the ante handler, the message handlers, begin/end blockers, queriers.  What is modelled
is **which store object each of them is given and which of their writes reach the working trees of
the root multistore** (`app.cms`), because that is what C11 is about.

Facts of the Go code mirrored here (all verified by reading `baseapp.go`):

* `setCheckState` / `setDeliverState` build their contexts on the **raw** root multistore
  (`ms := app.cms`); the `CacheMultiStore` stored next to the context is never used by a context,
  so `app.deliverState.ms.Write()` in `Commit` writes an empty cache.
* `getContextForTx`: check and simulate use the check state's context (header of the last
  committed block), deliver the deliver state's context; in simulate mode the context is
  additionally cache-wrapped (`ctx.CacheContext()`), which only matters for the ante handler.
* `runTx`: `validateBasicTxMsgs`; ante handler on `cacheTxContext` (a `CacheMultiStore`) which is
  written (`msCache.Write()`) **only in deliver mode** and dropped on abort; then the message runs
  on `txContext` = `rootmulti.Store.CopyStore()` of `app.cms`, which **shares the substore objects**
  (uncached): handler writes go straight into the working trees, in every mode in which the handler
  runs, whether or not the handler fails.
* `runMsg` skips the handler only in check mode.
* `Query`: `store/...` reads a committed version; `custom/...` runs the querier on a freshly
  loaded copy of a committed version (`LoadLazyVersion`) with a context that is *not* marked
  `PrevCtx` (so node-local caches may be touched: side state `G`); `app/simulate` is
  `runTx(runTxModeSimulate)`; `app/version` is a constant.

`S` is the content of the working trees of the root multistore (any type: it may include tree
shape), `G` the node-local side state (package-global caches), `Tx` decoded transactions, `R`
results, `Hdr` block headers, `Q`/`A` queries and answers.
-/
namespace BaseApp

/-- `runTxMode` of baseapp.go. -/
inductive Mode where
  | check | simulate | deliver
  deriving DecidableEq, Repr

/-- Which store the message handler of a *simulated* transaction is given.
`asis`: `txContext` = `CopyStore()` of the raw root multistore (the code as it is);
`fixed`: a cache-wrapped multistore that is never written, on a context marked "previous"
(/repo 3ee4649 = `fixes/C11-simulate-cache.patch`): the IsPrevCtx-guarded object caches are
bypassed, and (/repo 71bd5ef = `fixes/C11-simulate-upgrade-globals.patch`) the gov upgrade handler
leaves the process-wide upgrade schedule (`codec.UpgradeHeight`, `OldUpgradeHeight`,
`UpgradeFeatureMap`) alone under such a context — so nothing the *handler* does to the side state
`G` survives a simulation; only the ante handler's side effects (cache fills against the working
store) do.  This is the code as it is now. -/
inductive Plumbing where
  | asis | fixed
  deriving DecidableEq, Repr

/-- What the ante handler leaves behind: the contents seen *through its cache* after it ran, the
side state, its result and the abort flag. -/
structure AnteOut (S G R : Type) where
  view : S
  side : G
  res : R
  abort : Bool

/-- The application code plugged into baseapp (arbitrary functions: theorems quantify over them). -/
structure Hooks (S G Tx R Hdr Q A : Type) where
  /-- `validateBasicTxMsgs` (`none` = passes). -/
  validateBasic : Tx → Option R
  /-- `app.anteHandler(anteCtx, tx, txBytes, txIndexer, simulate)`; runs on a cache over the store. -/
  ante : Tx → Bool → Hdr → S → G → AnteOut S G R
  /-- `handler(ctx, msg, signer)` of the routed module; runs directly on the store it is given. -/
  handler : Tx → Hdr → S → G → S × G × R
  /-- Result assembled by `runMsg` when the handler is skipped (check mode). -/
  skipped : R
  /-- Result of `DeliverTx` for a transaction already in `transactionCache`. -/
  duplicate : R
  /-- Result when `txDecoder` fails. -/
  undecodable : R
  beginBlocker : Hdr → S → G → S × G
  endBlocker : Hdr → S → G → S × G
  /-- Custom querier: gets a loaded copy of a committed version; whatever it writes to that copy is
  lost (the copy is returned only to make that explicit), node-local side state may change. -/
  querier : Q → Hdr → S → G → S × G × A
  /-- `rootmulti.Store.Query` on a committed version (read only by construction). -/
  storeQuery : Q → S → A
  /-- answers for `app/version`, a missing version, an unknown path -/
  version : A
  noVersion : A
  unknownPath : A
  /-- wraps a simulate result as a query answer -/
  simAnswer : R → A

/-- Node state seen by baseapp. -/
structure App (S G Tx Hdr : Type) where
  /-- working trees of `app.cms` (uncommitted writes included) -/
  root : S
  /-- committed versions, oldest first (`versions[i]` is height `i+1`) -/
  versions : List S
  /-- node-local side state (package-global caches, feature map) -/
  side : G
  /-- header of `checkState.ctx` (last committed block; genesis header before the first commit) -/
  chkHdr : Hdr
  /-- header of `deliverState.ctx`; `none` between `Commit` and `BeginBlock` -/
  dlvHdr : Option Hdr
  /-- `transactionCache` (deliver-mode keys), reset by `EndBlock` -/
  seen : List Tx

variable {S G Tx R Hdr Q A : Type}

/-- `runTx`.  Returns the new working trees, the new side state and the result. -/
def runTx (p : Plumbing) (h : Hooks S G Tx R Hdr Q A) (mode : Mode) (hdr : Hdr) (tx : Tx)
    (root : S) (side : G) : S × G × R :=
  match h.validateBasic tx with
  | some err => (root, side, err)
  | none =>
    let a := h.ante tx (mode == .simulate) hdr root side
    if a.abort then (root, a.side, a.res)
    else
      match mode with
      | .check => (root, a.side, h.skipped)
      | .deliver =>
        -- msCache.Write(): the ante handler's writes reach the working trees; then the handler runs
        -- on the raw store: its writes persist whether or not it succeeds
        h.handler tx hdr a.view a.side
      | .simulate =>
        match p with
        | .asis =>
          -- ante cache dropped; the handler is handed the raw working trees
          h.handler tx hdr root a.side
        | .fixed =>
          -- handler on a cache that is never written, caches bypassed
          (root, a.side, (h.handler tx hdr root a.side).2.2)

/-- `CheckTx` (`none` = undecodable bytes). -/
def checkTx (p : Plumbing) (h : Hooks S G Tx R Hdr Q A) (st : App S G Tx Hdr) (tx : Option Tx) :
    App S G Tx Hdr × R :=
  match tx with
  | none => (st, h.undecodable)
  | some tx =>
    let r := runTx p h .check st.chkHdr tx st.root st.side
    ({ st with root := r.1, side := r.2.1 }, r.2.2)

/-- `Query("app/simulate")` = `Simulate` = `runTx(runTxModeSimulate)` on the check state. -/
def simulate (p : Plumbing) (h : Hooks S G Tx R Hdr Q A) (st : App S G Tx Hdr) (tx : Option Tx) :
    App S G Tx Hdr × R :=
  match tx with
  | none => (st, h.undecodable)
  | some tx =>
    let r := runTx p h .simulate st.chkHdr tx st.root st.side
    ({ st with root := r.1, side := r.2.1 }, r.2.2)

/-- `LoadLazyVersion(height)`; height 0 means the latest committed version. -/
def loadVersion (st : App S G Tx Hdr) (height : Nat) : Option S :=
  if height = 0 then st.versions.getLast? else st.versions[height - 1]?

/-- `Query("store/…")`. -/
def queryStore (h : Hooks S G Tx R Hdr Q A) (st : App S G Tx Hdr) (q : Q) (height : Nat) :
    App S G Tx Hdr × A :=
  match loadVersion st height with
  | none => (st, h.noVersion)
  | some s => (st, h.storeQuery q s)

/-- `Query("custom/…")`: the querier works on a loaded copy; only the side state can change. -/
def queryCustom (h : Hooks S G Tx R Hdr Q A) (st : App S G Tx Hdr) (q : Q) (height : Nat) :
    App S G Tx Hdr × A :=
  match loadVersion st height with
  | none => (st, h.noVersion)
  | some s =>
    let r := h.querier q st.chkHdr s st.side
    ({ st with side := r.2.1 }, r.2.2)

/-- Off-chain requests a node serves between (any two) ABCI block calls. -/
inductive Call (Tx Q : Type) where
  | checkTx (tx : Option Tx)
  | simulate (tx : Option Tx)
  | queryStore (q : Q) (height : Nat)
  | queryCustom (q : Q) (height : Nat)
  | queryVersion
  | queryUnknown

/-- Serve one off-chain request. -/
def serve (p : Plumbing) (h : Hooks S G Tx R Hdr Q A) (st : App S G Tx Hdr) :
    Call Tx Q → App S G Tx Hdr × (R ⊕ A)
  | .checkTx tx => let r := checkTx p h st tx; (r.1, .inl r.2)
  | .simulate tx => let r := simulate p h st tx; (r.1, .inr (h.simAnswer r.2))
  | .queryStore q ht => let r := queryStore h st q ht; (r.1, .inr r.2)
  | .queryCustom q ht => let r := queryCustom h st q ht; (r.1, .inr r.2)
  | .queryVersion => (st, .inr h.version)
  | .queryUnknown => (st, .inr h.unknownPath)

/-- One ABCI call of a node's life. -/
inductive Step (Tx Hdr Q : Type) where
  | beginBlock (hdr : Hdr)
  | deliverTx (tx : Option Tx)
  | endBlock
  | commit
  | off (c : Call Tx Q)

def Step.isConsensus : Step Tx Hdr Q → Bool
  | .off _ => false
  | _ => true

/-- Consensus-visible output of a step: `ResponseDeliverTx` and the committed working trees (the
app hash is a function of them). -/
inductive Out (S R : Type) where
  | delivered (r : R)
  | committed (root : S)
  deriving DecidableEq, Repr

/-- `DeliverTx`. Without a deliver state (`BeginBlock` not called) the Go code dereferences nil;
the model leaves the state alone. -/
def deliverTx (p : Plumbing) (h : Hooks S G Tx R Hdr Q A) [DecidableEq Tx] (st : App S G Tx Hdr)
    (tx : Option Tx) : App S G Tx Hdr × List (Out S R) :=
  match st.dlvHdr with
  | none => (st, [])
  | some hdr =>
    match tx with
    | none => (st, [.delivered h.undecodable])
    | some tx =>
      if tx ∈ st.seen then (st, [.delivered h.duplicate])
      else
        let r := runTx p h .deliver hdr tx st.root st.side
        ({ st with root := r.1, side := r.2.1, seen := tx :: st.seen }, [.delivered r.2.2])

/-- One step. -/
def step (p : Plumbing) (h : Hooks S G Tx R Hdr Q A) [DecidableEq Tx] (st : App S G Tx Hdr) :
    Step Tx Hdr Q → App S G Tx Hdr × List (Out S R)
  | .beginBlock hdr =>
    let r := h.beginBlocker hdr st.root st.side
    ({ st with root := r.1, side := r.2, dlvHdr := some hdr }, [])
  | .deliverTx tx => deliverTx p h st tx
  | .endBlock =>
    match st.dlvHdr with
    | none => (st, [])
    | some hdr =>
      let r := h.endBlocker hdr st.root st.side
      ({ st with root := r.1, side := r.2, seen := [] }, [])
  | .commit =>
    match st.dlvHdr with
    | none => (st, [])
    | some hdr =>
      ({ st with versions := st.versions ++ [st.root], chkHdr := hdr, dlvHdr := none }, [.committed st.root])
  | .off c => ((serve p h st c).1, [])

/-- Run a history; returns the final node state and the consensus outputs in order. -/
def run (p : Plumbing) (h : Hooks S G Tx R Hdr Q A) [DecidableEq Tx] (st : App S G Tx Hdr) :
    List (Step Tx Hdr Q) → App S G Tx Hdr × List (Out S R)
  | [] => (st, [])
  | s :: ss =>
    let r := step p h st s
    let r' := run p h r.1 ss
    (r'.1, r.2 ++ r'.2)

/-- The part of the node state that block execution builds on (everything but node-local side state). -/
def ConsEq (a b : App S G Tx Hdr) : Prop :=
  a.root = b.root ∧ a.versions = b.versions ∧ a.chkHdr = b.chkHdr ∧ a.dlvHdr = b.dlvHdr ∧ a.seen = b.seen

/-- Block execution does not read node-local side state: the outcome of the consensus hooks (store
effect, result) is the same for every side state.  This is what C13 establishes for the caches that
are coherent; here it is a hypothesis. -/
structure SideIndep (h : Hooks S G Tx R Hdr Q A) : Prop where
  ante : ∀ tx sim hdr s g g', (h.ante tx sim hdr s g).view = (h.ante tx sim hdr s g').view ∧
    (h.ante tx sim hdr s g).res = (h.ante tx sim hdr s g').res ∧
    (h.ante tx sim hdr s g).abort = (h.ante tx sim hdr s g').abort
  handler : ∀ tx hdr s g g', (h.handler tx hdr s g).1 = (h.handler tx hdr s g').1 ∧
    (h.handler tx hdr s g).2.2 = (h.handler tx hdr s g').2.2
  beginBlocker : ∀ hdr s g g', (h.beginBlocker hdr s g).1 = (h.beginBlocker hdr s g').1
  endBlocker : ∀ hdr s g g', (h.endBlocker hdr s g).1 = (h.endBlocker hdr s g').1

/-- Calls that are harmless under plumbing `p`: everything except `simulate` under `asis`. -/
def Call.harmless (p : Plumbing) : Call Tx Q → Bool
  | .simulate _ => p == .fixed
  | _ => true

def Step.harmless (p : Plumbing) : Step Tx Hdr Q → Bool
  | .off c => c.harmless p
  | _ => true

/-! ## Two-mark instance used by the driver

`S = G = (ante-mark, handler-mark)`: the ante handler sets the first mark of the store it sees, the
handler the second.  Running the model's `runTx` on it tells, per mode and plumbing, which writes
reach the working trees — this is what the driver compares with the effects observed on the real
application (fee-collector balance = ante mark, recipient balance = handler mark). -/

structure Marks where
  ante : Bool
  msg : Bool
  deriving DecidableEq, Repr

/-- Hooks of the two-mark instance; `anteOk`/`msgOk` choose abort/failure. -/
def markHooks (anteOk : Bool) : Hooks Marks Unit Unit Bool Unit Unit Bool where
  validateBasic := fun _ => none
  ante := fun _ _ _ s g => ⟨{ s with ante := true }, g, anteOk, !anteOk⟩
  handler := fun _ _ s g => ({ s with msg := true }, g, true)
  skipped := true
  duplicate := false
  undecodable := false
  beginBlocker := fun _ s g => (s, g)
  endBlocker := fun _ s g => (s, g)
  querier := fun _ _ s g => ({ s with msg := true, ante := true }, g, true)
  storeQuery := fun _ _ => true
  version := true
  noVersion := false
  unknownPath := false
  simAnswer := id

/-- Which marks reach the working trees when a transaction whose ante handler passes (`anteOk`) is
run in `mode` under plumbing `p`. -/
def visible (p : Plumbing) (mode : Mode) (anteOk : Bool) : Marks :=
  (runTx p (markHooks anteOk) mode () () ⟨false, false⟩ ()).1

end BaseApp
