import PocketModel.Codec.AminoCommitInfo
import PocketModel.Store.Sha256
/-!
# Raw DB writes of the real multistore → the typed `Disk` of the model (driver support, executable)

The harness records every atomic write reaching the tm-db backend as `B:s<key>=<val>,d<key>,…`
(hex).  Keys are classified by the real key formats:

    s/k:<name>/n<hash:32>            node            s/k:<name>/r<version:8>   root
    s/k:<name>/o<to:8><from:8><hash:32>  orphan      s/<decimal>  commit info      s/latest
-/
namespace NodeDB
open Amino RootMulti

inductive RawKey where
  | node (store : Name) (hash : Bytes)
  | orphan (store : Name) (to frm : Int) (hash : Bytes)
  | root (store : Name) (ver : Int)
  | cinfo (ver : Int)
  | latest
  deriving Repr, DecidableEq

def be64 (b : Bytes) : Int := ofU64 (b.foldl (fun a x => a * 256 + x.toNat) 0)

def asciiNat? (b : Bytes) : Option Nat :=
  if b = [] then none else b.foldl (fun a x => a.bind fun n => if 48 ≤ x.toNat ∧ x.toNat ≤ 57 then some (n * 10 + (x.toNat - 48)) else none) (some 0)

def classify (key : Bytes) : Option RawKey :=
  match key with
  | 0x73 :: 0x2f :: 0x6b :: 0x3a :: rest =>      -- "s/k:"
    let name := rest.takeWhile (· ≠ 0x2f)
    match (rest.dropWhile (· ≠ 0x2f)) with
    | 0x2f :: 0x6e :: h => if h.length = 32 then some (.node name h) else none
    | 0x2f :: 0x72 :: v => if v.length = 8 then some (.root name (be64 v)) else none
    | 0x2f :: 0x6f :: r =>
      if r.length = 48 then some (.orphan name (be64 (r.take 8)) (be64 ((r.drop 8).take 8)) (r.drop 16)) else none
    | _ => none
  | 0x73 :: 0x2f :: rest =>
    if rest = Bytes.ofString "latest" then some .latest
    else (asciiNat? rest).map fun n => .cinfo n
  | _ => none

inductive RawOp where
  | set (k : RawKey) (v : Bytes)
  | del (k : RawKey)
  deriving Repr

def parseOp (s : String) : Option RawOp :=
  match s.toList with
  | 's' :: rest =>
    match (String.ofList rest).splitOn "=" with
    | [k, v] => do
      let k ← Bytes.parse k
      let v ← Bytes.parse v
      let rk ← classify k
      pure (.set rk v)
    | _ => none
  | 'd' :: rest => do
    let k ← Bytes.parse (String.ofList rest)
    let rk ← classify k
    pure (.del rk)
  | _ => none

/-- `B:op,op,…` -/
def parseEvent (s : String) : Option (List RawOp) :=
  if s.startsWith "B:" then
    let body := (s.drop 2).toString
    if body = "" then some [] else (body.splitOn ",").mapM parseOp
  else none

def RawKey.store? : RawKey → Option Name
  | .node s _ => some s
  | .orphan s .. => some s
  | .root s _ => some s
  | _ => none

def RawOp.key : RawOp → RawKey
  | .set k _ => k
  | .del k => k

def Disk.updStore (d : Disk) (n : Name) (f : NDB → NDB) : Disk :=
  if (aget n d.stores).isSome then { d with stores := d.stores.map fun e => if e.1 = n then (n, f e.2) else e }
  else { d with stores := d.stores ++ [(n, f {})] }

/-- Apply one raw operation; `none` when a record does not decode. -/
def Disk.applyRaw (d : Disk) : RawOp → Option Disk
  | .set (.node s h) v => some (d.updStore s fun db => { db with nodes := aput h v db.nodes })
  | .del (.node s h) => some (d.updStore s fun db => { db with nodes := adel h db.nodes })
  | .set (.orphan s t f h) v => some (d.updStore s fun db => { db with orphans := aput (t, f, h) v db.orphans })
  | .del (.orphan s t f h) => some (d.updStore s fun db => { db with orphans := adel (t, f, h) db.orphans })
  | .set (.root s ver) v => some (d.updStore s fun db => { db with roots := aput ver v db.roots })
  | .del (.root s ver) => some (d.updStore s fun db => { db with roots := adel ver db.roots })
  | .set (.cinfo ver) v => (decCommitInfo v).map fun ci => { d with cinfos := aput ver ci d.cinfos }
  | .del (.cinfo ver) => some { d with cinfos := adel ver d.cinfos }
  | .set .latest v => (decLatest v).map fun l => { d with latest := some l }
  | .del .latest => some { d with latest := none }

def Disk.applyRawAll (d : Disk) (ops : List RawOp) : Option Disk := ops.foldlM Disk.applyRaw d

/-- Set equality of two association lists (keys unique in both). -/
def sameSet {α : Type} [DecidableEq α] (a b : List α) : Bool :=
  a.length == b.length && a.all (fun x => b.contains x)

def NDB.same (a b : NDB) : Bool := sameSet a.nodes b.nodes && sameSet a.orphans b.orphans && sameSet a.roots b.roots

def NDB.diffDetail (m i : NDB) : String :=
  let part {α : Type} [DecidableEq α] (what : String) (a b : List α) : String :=
    if sameSet a b then "" else s!" {what}: model={a.length} impl={b.length} model-only={(a.filter fun x => !b.contains x).length} impl-only={(b.filter fun x => !a.contains x).length}"
  part "nodes" m.nodes i.nodes ++ part "orphans" m.orphans i.orphans ++ part "roots" m.roots i.roots

def Disk.same (names : List Name) (a b : Disk) : Bool :=
  names.all (fun n => (a.storeDB n).same (b.storeDB n)) && sameSet a.cinfos b.cinfos && a.latest == b.latest

def renderKV (l : List (Bytes × Bytes)) : String :=
  if l.isEmpty then "-" else ",".intercalate (l.map fun e => s!"{Bytes.render e.1}:{Bytes.render e.2}")

def renderHash (h : Bytes) : String := if h.isEmpty then "~" else Bytes.toHex h
def parseHash (s : String) : Option Bytes := if s = "~" then some [] else Bytes.parse s

def nameOf (s : String) : Name := Bytes.ofString s
def nameStr (n : Name) : String := String.ofList (n.map fun b => Char.ofNat b.toNat)

/-- Every node record of a batch must re-encode to the same bytes with the model encoder and sit under
the hash the model computes. -/
def checkNodeOps (ops : List RawOp) : Option String :=
  ops.findSome? fun op => match op with
    | .set (.node _ h) v =>
      match makeNode v with
      | none => some s!"node {Bytes.toHex h}: model MakeNode fails"
      | some r =>
        if writeBytes r ≠ v then some s!"node {Bytes.toHex h}: writeBytes(model)≠bytes(impl)"
        else if r.hash Sha256.sum ≠ h then some s!"node {Bytes.toHex h}: model hash {Bytes.toHex (r.hash Sha256.sum)}"
        else none
    | _ => none

end NodeDB
