import PocketModel.Basic.Bytes
/-!
# IAVL tree (store/iavl) — executable model, hashes dropped

Mirrors `store/iavl/node.go`, `store/iavl/mutable_tree.go`, `store/iavl/immutable_tree.go` of
pocket-core *as they are*: a leaf-valued AVL tree (all key/value pairs live in leaves, an inner node
carries a routing key, its cached `height` and `size`, and the version that created it), modified
copy-on-write, with the list of retained saved versions.

What is **not** in this model (handled by other properties' models, which may import this file):
node hashes and `leftHash/rightHash` (C04/C05), the node DB, the orphan bookkeeping and the node
cache (C04/C08), lazy child loading `getLeftNode/getRightNode` (a child is simply the sub-term).

Conventions
* A Go `*Node` is a `Node` term; `nil` roots are `Option Node`.
* Go decides `isLeaf()` by `height == 0`; the model decides it by constructor.  Both agree on every
  tree satisfying `HeightOK` (an `inner` then has `h ≥ 1`), which is every reachable tree.
* `height` is `int8` and `size`/`version` are `int64` in Go; the model uses `Nat`
  (`Props.C03.height_bound` shows `int8` cannot overflow below 2^64 keys).
* Go panics (`clone` of a leaf inside a rotation) are modelled by returning the argument unchanged;
  those branches are unreachable from `balance` (shown in the proofs: a side that is two higher is
  an inner node).
-/

namespace Iavl

/-- `iavl.Node` without hashes.  `leaf`: `height = 0`, `size = 1`. `inner`: `key` routes (keys
`< key` are in `l`, keys `≥ key` in `r`), `h`/`size` are the *stored* fields (`node.height`,
`node.size`), `ver` is `node.version`. -/
inductive Node where
  | leaf (k v : Bytes) (ver : Nat)
  | inner (key : Bytes) (h : Nat) (size : Nat) (l r : Node) (ver : Nat)
  deriving Repr, DecidableEq, Inhabited

namespace Node

/-- `node.height` (stored field; 0 for a leaf). -/
def height : Node → Nat
  | leaf .. => 0
  | inner _ h .. => h

/-- `node.size` (stored field; 1 for a leaf). -/
def size : Node → Nat
  | leaf .. => 1
  | inner _ _ s .. => s

/-- `node.key`. -/
def key : Node → Bytes
  | leaf k .. => k
  | inner k .. => k

/-- `node.version`. -/
def version : Node → Nat
  | leaf _ _ ver => ver
  | inner _ _ _ _ _ ver => ver

/-- `Node.calcHeightAndSize`: recompute the stored height and size from the children's stored
fields. -/
def calcHeightAndSize : Node → Node
  | inner k _ _ l r ver => inner k (max l.height r.height + 1) (l.size + r.size) l r ver
  | n => n

/-- `Node.calcBalance`: left height minus right height (0 on a leaf, where Go would panic). -/
def calcBalance : Node → Int
  | inner _ _ _ l r _ => (l.height : Int) - (r.height : Int)
  | leaf .. => 0

/-- `MutableTree.rotateRight` (node version := `version`; both touched nodes are cloned with the new
version and re-measured, the lower one first). -/
def rotateRight (version : Nat) : Node → Node
  | inner k h s (inner lk lh ls ll lr _) r _ =>
    let node' := calcHeightAndSize (inner k h s lr r version)
    calcHeightAndSize (inner lk lh ls ll node' version)
  | n => n

/-- `MutableTree.rotateLeft`. -/
def rotateLeft (version : Nat) : Node → Node
  | inner k h s l (inner rk rh rs rl rr _) _ =>
    let node' := calcHeightAndSize (inner k h s l rl version)
    calcHeightAndSize (inner rk rh rs node' rr version)
  | n => n

/-- `MutableTree.balance` with the code's tie-breaks: left-left when the left child's balance is
`>= 0`, right-right when the right child's balance is `<= 0`. -/
def balance (version : Nat) : Node → Node
  | inner k h s l r ver =>
    let b : Int := (l.height : Int) - (r.height : Int)
    if b > 1 then
      if l.calcBalance ≥ 0 then rotateRight version (inner k h s l r ver)
      else rotateRight version (inner k h s (rotateLeft version l) r ver)
    else if b < -1 then
      if r.calcBalance ≤ 0 then rotateLeft version (inner k h s l r ver)
      else rotateLeft version (inner k h s l (rotateRight version r) ver)
    else inner k h s l r ver
  | n => n

/-- `MutableTree.recursiveSet` → `(newSelf, updated)`.  `version` is `tree.version + 1`.
Note the early return when a value was replaced (`updated`): the cloned ancestors keep their stored
height and size and are not re-balanced. -/
def recursiveSet (version : Nat) : Node → Bytes → Bytes → Node × Bool
  | leaf k v ver, key, value =>
    if key < k then
      (inner k 1 2 (leaf key value version) (leaf k v ver) version, false)
    else if k < key then
      (inner key 1 2 (leaf k v ver) (leaf key value version) version, false)
    else (leaf key value version, true)
  | inner k h s l r _, key, value =>
    if key < k then
      let res := recursiveSet version l key value
      if res.2 then (inner k h s res.1 r version, true)
      else (balance version (calcHeightAndSize (inner k h s res.1 r version)), false)
    else
      let res := recursiveSet version r key value
      if res.2 then (inner k h s l res.1 version, true)
      else (balance version (calcHeightAndSize (inner k h s l res.1 version)), false)

/-- Results of `MutableTree.recursiveRemove` (`newHash` dropped): `node = none` ⇔ Go returns
`newHash == nil && newSelf == nil` (the visited node was the removed leaf); `newKey` is the "new
leftmost leaf key" handed to the first ancestor reached from its right side; `value` the removed
value; `removed` ⇔ `len(*orphans) != 0`. -/
structure RemoveResult where
  node : Option Node
  newKey : Option Bytes
  value : Option Bytes
  removed : Bool
  deriving Repr, DecidableEq

/-- `MutableTree.recursiveRemove`. -/
def recursiveRemove (version : Nat) : Node → Bytes → RemoveResult
  | leaf k v ver, key =>
    if key = k then ⟨none, none, some v, true⟩ else ⟨some (leaf k v ver), none, none, false⟩
  | inner k h s l r ver, key =>
    if key < k then
      let res := recursiveRemove version l key
      if !res.removed then ⟨some (inner k h s l r ver), none, res.value, false⟩
      else match res.node with
        | none => ⟨some r, some k, res.value, true⟩
        | some l' =>
          ⟨some (balance version (calcHeightAndSize (inner k h s l' r version))), res.newKey, res.value, true⟩
    else
      let res := recursiveRemove version r key
      if !res.removed then ⟨some (inner k h s l r ver), none, res.value, false⟩
      else match res.node with
        | none => ⟨some l, none, res.value, true⟩
        | some r' =>
          let k' := res.newKey.getD k   -- `if newKey != nil { newNode.key = newKey }`
          ⟨some (balance version (calcHeightAndSize (inner k' h s l r' version))), none, res.value, true⟩

/-- `Node.get` → `(index, value)`; for an absent key the index is where the key would be.
`node.size - rightNode.size` is the stored size arithmetic of the code (truncated subtraction in
the model, equal on trees with correct sizes). -/
def get : Node → Bytes → Nat × Option Bytes
  | leaf k v _, key =>
    if k < key then (1, none) else if key < k then (0, none) else (0, some v)
  | inner k _ s l r _, key =>
    if key < k then get l key
    else
      let res := get r key
      (res.1 + (s - r.size), res.2)

/-- `Node.has`: note that a match with an **inner** node's key already answers `true`. -/
def has : Node → Bytes → Bool
  | leaf k _ _, key => k == key
  | inner k _ _ l r _, key =>
    if k = key then true else if key < k then has l key else has r key

/-- `Node.getByIndex` (`index` is an `int64`, may be negative). -/
def getByIndex : Node → Int → Option (Bytes × Bytes)
  | leaf k v _, i => if i = 0 then some (k, v) else none
  | inner _ _ _ l r _, i =>
    if i < (l.size : Int) then getByIndex l i else getByIndex r (i - (l.size : Int))

/-- `start == nil || bytes.Compare(start, key) < 0`. -/
def afterStart (start : Option Bytes) (key : Bytes) : Bool :=
  match start with
  | none => true
  | some s => decide (s < key)

/-- `start == nil || bytes.Compare(start, key) <= 0`. -/
def startOrAfter (start : Option Bytes) (key : Bytes) : Bool :=
  match start with
  | none => true
  | some s => decide (s ≤ key)

/-- `end == nil || bytes.Compare(key, end) < 0` (`<= 0` when `inclusive`). -/
def beforeEnd (end_ : Option Bytes) (inclusive : Bool) (key : Bytes) : Bool :=
  match end_ with
  | none => true
  | some e => if inclusive then decide (key ≤ e) else decide (key < e)

/-- `Node.traverseInRange` (pre-order, never stopped): the leaves handed to the callback, in visit
order.  Inner nodes are also visited by the Go function; every caller modelled here ignores them
(`IterateRange`, `IterateRangeInclusive`, `Iterate`).  A callback that stops the traversal sees a
prefix of this list (`traverseStop`). -/
def traverseInRange (start end_ : Option Bytes) (ascending inclusive : Bool) :
    Node → List (Bytes × Bytes)
  | leaf k v _ =>
    if startOrAfter start k && beforeEnd end_ inclusive k then [(k, v)] else []
  | inner k _ _ l r _ =>
    let left := if afterStart start k then traverseInRange start end_ ascending inclusive l else []
    let right := if beforeEnd end_ inclusive k then traverseInRange start end_ ascending inclusive r else []
    if ascending then left ++ right else right ++ left

/-- `Node.traverseInRange` with a leaf callback that may stop the traversal (`cb … = true` means
stop, as in Go): the leaves handed to the callback and the returned `stop` flag. -/
def traverseStop (start end_ : Option Bytes) (ascending inclusive : Bool) (cb : Bytes → Bytes → Bool) :
    Node → List (Bytes × Bytes) × Bool
  | leaf k v _ =>
    if startOrAfter start k && beforeEnd end_ inclusive k then ([(k, v)], cb k v) else ([], false)
  | inner k _ _ l r _ =>
    let goL := afterStart start k
    let goR := beforeEnd end_ inclusive k
    if ascending then
      let a := if goL then traverseStop start end_ ascending inclusive cb l else ([], false)
      if a.2 then a
      else
        let b := if goR then traverseStop start end_ ascending inclusive cb r else ([], false)
        (a.1 ++ b.1, b.2)
    else
      let a := if goR then traverseStop start end_ ascending inclusive cb r else ([], false)
      if a.2 then a
      else
        let b := if goL then traverseStop start end_ ascending inclusive cb l else ([], false)
        (a.1 ++ b.1, b.2)

/-- Abstraction function: the key/value pairs of the leaves, left to right. -/
def toList : Node → List (Bytes × Bytes)
  | leaf k v _ => [(k, v)]
  | inner _ _ _ l r _ => toList l ++ toList r

/-- Key of the leftmost leaf. -/
def minKey : Node → Bytes
  | leaf k _ _ => k
  | inner _ _ _ l _ _ => minKey l

/-- Key of the rightmost leaf. -/
def maxKey : Node → Bytes
  | leaf k _ _ => k
  | inner _ _ _ _ r _ => maxKey r

/-- Decidable invariant monitor: `some (minKey, maxKey)` iff below this node every inner node has
(left keys < key = least key of the right subtree), correct stored height and size, and balance
factor in {-1,0,1}.  One pass, used by the driver on the implementation's dumped shape. -/
def check : Node → Option (Bytes × Bytes)
  | leaf k _ _ => some (k, k)
  | inner k h s l r _ =>
    match check l, check r with
    | some (lmin, lmax), some (rmin, rmax) =>
      if lmax < k ∧ k = rmin ∧ h = max l.height r.height + 1 ∧ s = l.size + r.size
          ∧ l.height ≤ r.height + 1 ∧ r.height ≤ l.height + 1 then some (lmin, rmax) else none
    | _, _ => none

/-- The runtime monitor (`Proofs.Store.Iavl.checkInv_iff`: `checkInv t = true ↔ Inv t`). -/
def checkInv (t : Node) : Bool := (check t).isSome

end Node

open Node

/-! ## The versioned tree (`MutableTree`) -/

/-- `MutableTree` over a fresh node DB: working root, `tree.version`, `lastSaved` root and the
retained saved versions (`ndb` roots / `tree.versions`), newest first.  A saved root is the
`ImmutableTree` value that `GetImmutable`/`LazyLoadVersion` hand out. -/
structure Tree where
  root : Option Node := none
  version : Nat := 0
  lastSaved : Option Node := none
  versions : List (Nat × Option Node) := []
  deriving Repr, DecidableEq

namespace Tree

/-- `NewMutableTree`. -/
def empty : Tree := {}

/-- `MutableTree.Set` → `(tree, updated)`; on the empty tree Go returns `updated = false`. -/
def set (t : Tree) (key value : Bytes) : Tree × Bool :=
  match t.root with
  | none => ({ t with root := some (leaf key value (t.version + 1)) }, false)
  | some n =>
    let res := recursiveSet (t.version + 1) n key value
    ({ t with root := some res.1 }, res.2)

/-- `MutableTree.Remove` → `(tree, value, removed)`. -/
def remove (t : Tree) (key : Bytes) : Tree × Option Bytes × Bool :=
  match t.root with
  | none => (t, none, false)
  | some n =>
    let res := recursiveRemove (t.version + 1) n key
    if !res.removed then (t, none, false)
    else ({ t with root := res.node }, res.value, true)

/-- `tree.versions[v]`. -/
def versionExists (t : Tree) (v : Nat) : Bool := t.versions.any (·.1 == v)

/-- `MutableTree.SaveVersion` (the branch for a fresh version number; empty trees are saved too).
The other branch of the Go function — `tree.versions[version+1]` already set, idempotent re-save
or error by hash — needs a `LoadVersion` of an older version first; it is unreachable here
(`Proofs.Store.Iavl.WF.fresh`) and belongs to C07's model. In the model it leaves the tree unchanged. -/
def saveVersion (t : Tree) : Tree :=
  let v := t.version + 1
  if t.versionExists v then t
  else { root := t.root, version := v, lastSaved := t.root, versions := (v, t.root) :: t.versions }

/-- `MutableTree.GetImmutable` (`none` = `ErrVersionDoesNotExist`). -/
def getImmutable (t : Tree) (v : Nat) : Option (Option Node) :=
  (t.versions.find? (·.1 == v)).map (·.2)

/-- Outcome of `MutableTree.DeleteVersion`. -/
inductive DelResult where
  | ok | errZero | errLatest | errMissing
  deriving Repr, DecidableEq

/-- `MutableTree.DeleteVersion` (checks in the code's order). -/
def deleteVersion (t : Tree) (v : Nat) : Tree × DelResult :=
  if v = 0 then (t, .errZero)
  else if v = t.version then (t, .errLatest)
  else if !t.versionExists v then (t, .errMissing)
  else ({ t with versions := t.versions.filter (·.1 != v) }, .ok)

/-- `MutableTree.Rollback`: back to the last saved tree. -/
def rollback (t : Tree) : Tree :=
  if t.version > 0 then { t with root := t.lastSaved } else { t with root := none }

/-- Outcome of `MutableTree.LazyLoadVersion`. -/
inductive LazyResult where
  | errTooNew                                   -- "wanted to load target … but only found up to …"
  | nilTree                                     -- `(nil, nil)`: nothing saved yet
  | errMissing                                  -- `ErrVersionDoesNotExist`
  | view (root : Option Node) (version : Nat)   -- the new tree's root and version
  deriving Repr, DecidableEq

/-- `MutableTree.LazyLoadVersion targetVersion` (the latest version on disk is `tree.version` for
a tree that was created fresh and only saved). -/
def lazyLoadVersion (t : Tree) (target : Int) : LazyResult :=
  if (t.version : Int) < target then .errTooNew
  else if t.version = 0 then .nilTree
  else
    let tv : Nat := if target ≤ 0 then t.version else target.toNat
    match t.getImmutable tv with
    | none => .errMissing
    | some r => .view r tv

/-- The mutating operations of a history. -/
inductive Op where
  | set (k v : Bytes)
  | remove (k : Bytes)
  | save
  | delete (v : Nat)
  | rollback
  deriving Repr, DecidableEq

def step (t : Tree) : Op → Tree
  | .set k v => (t.set k v).1
  | .remove k => (t.remove k).1
  | .save => t.saveVersion
  | .delete v => (t.deleteVersion v).1
  | .rollback => t.rollback

/-- The tree after a history, starting from `NewMutableTree`. -/
def run (ops : List Op) : Tree := ops.foldl step empty

end Tree

/-! ## Reads (`ImmutableTree.Get/Has/GetByIndex/IterateRange[Inclusive]`) on an optional root -/

/-- A read request. -/
inductive Read where
  | get (k : Bytes)
  | has (k : Bytes)
  | byIndex (i : Int)
  | range (start end_ : Option Bytes) (ascending inclusive : Bool)
  deriving Repr, DecidableEq

/-- A read result. -/
inductive ReadResult where
  | get (index : Nat) (value : Option Bytes)
  | has (b : Bool)
  | byIndex (kv : Option (Bytes × Bytes))
  | range (kvs : List (Bytes × Bytes))
  deriving Repr, DecidableEq

/-- `ImmutableTree.{Get,Has,GetByIndex,IterateRange,IterateRangeInclusive}` including the
`root == nil` guards. -/
def readRoot (root : Option Node) : Read → ReadResult
  | .get k => match root with
    | none => .get 0 none
    | some n => .get (n.get k).1 (n.get k).2
  | .has k => match root with
    | none => .has false
    | some n => .has (n.has k)
  | .byIndex i => match root with
    | none => .byIndex none
    | some n => .byIndex (n.getByIndex i)
  | .range s e asc incl => match root with
    | none => .range []
    | some n => .range (n.traverseInRange s e asc incl)

/-- Where a read is directed: the working tree or a saved version. -/
inductive Target where
  | working
  | version (v : Nat)
  deriving Repr, DecidableEq

/-- A read on the working tree or on `GetImmutable v` (`none` = version does not exist). -/
def Tree.read (t : Tree) : Target → Read → Option ReadResult
  | .working, r => some (readRoot t.root r)
  | .version v, r => (t.getImmutable v).map (fun root => readRoot root r)

end Iavl
