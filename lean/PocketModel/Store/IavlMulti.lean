import PocketModel.Store.IavlSpec
/-!
# Historical views over the multistore (C09, stage A — pure model)

`rootmulti.Store` restricted to what historical reads need: a fixed list of IAVL substores
(`iavl.Store` = one `Iavl.Tree` each, index-addressed), `Commit` (every substore saves the same
next version; pruning is "nothing", the release code in `iavl.Store.Commit` is commented out, so no
version is ever deleted), and the three ways a past height is opened:

* `rootmulti.Store.LoadLazyVersion h`   → per substore `iavl.Store.LazyLoadStore h` → `MutableTree.LazyLoadVersion h`
* `rootmulti.Store.CacheMultiStoreWithVersion h` → the same per-substore call, cache-wrapped (C01)
* `MutableTree.GetImmutable h` / `GetVersioned`

In this pure model a historical view **is** the immutable tree value stored at save time.  What the
Go code adds on top — shared `versions` map, shared node DB and node cache, `SaveBranch` clearing
child pointers of nodes a reader may be walking — is heap aliasing (stage B); it is exercised by
the harness, not modelled here.
-/
namespace Iavl

/-- The multistore: its IAVL substores and `lastCommitID.Version`. -/
structure MS where
  stores : List Tree
  version : Nat
  deriving Repr, DecidableEq

/-- Writes of a block history. `i` is the substore index. -/
inductive MOp where
  | set (i : Nat) (k v : Bytes)
  | remove (i : Nat) (k : Bytes)
  | commit
  deriving Repr, DecidableEq

namespace MS

/-- A freshly loaded multistore with `n` mounted IAVL substores (version 0). -/
def init (n : Nat) : MS := { stores := List.replicate n Tree.empty, version := 0 }

/-- Apply `f` to the `i`-th substore. -/
def modify (l : List Tree) (i : Nat) (f : Tree → Tree) : List Tree :=
  l.mapIdx (fun j t => if j = i then f t else t)

/-- `KVStore.Set/Delete` on a substore; `rootmulti.Store.Commit`: `commitStores` saves every
substore (`iavl.Store.Commit` → `SaveVersion`), then `lastCommitID.Version++`. -/
def step (ms : MS) : MOp → MS
  | .set i k v => { ms with stores := modify ms.stores i (fun t => (t.set k v).1) }
  | .remove i k => { ms with stores := modify ms.stores i (fun t => (t.remove k).1) }
  | .commit => { stores := ms.stores.map Tree.saveVersion, version := ms.version + 1 }

def run (n : Nat) (ops : List MOp) : MS := ops.foldl step (init n)

/-- `LoadLazyVersion h` / `CacheMultiStoreWithVersion h`: one `LazyLoadVersion h` per substore; any
error fails the whole call (`none`). The result lists each view's root and version. Quirks kept:
`h ≤ 0` opens the latest version; before the first commit `LazyLoadVersion` returns `(nil, nil)`
(modelled as failure: the Go store then wraps a nil tree). -/
def loadLazyVersion (ms : MS) (h : Int) : Option (List (Option Node × Nat)) :=
  ms.stores.mapM (fun t => match t.lazyLoadVersion h with
    | .view root v => some (root, v)
    | _ => none)

/-- A read on substore `i` through a historical view of height `h` (`none`: no such view). -/
def readAt (ms : MS) (h : Nat) (i : Nat) (r : Read) : Option ReadResult :=
  (ms.stores[i]?).bind (fun t => t.read (.version h) r)

/-- A read on substore `i` of the working multistore. -/
def readWorking (ms : MS) (i : Nat) (r : Read) : Option ReadResult :=
  (ms.stores[i]?).bind (fun t => t.read .working r)

end MS

/-! ## Specification: the state committed at each height -/

/-- Per-height map model of the multistore: the working maps and, for every committed height, the
maps of all substores at that commit. -/
structure MSpec where
  cur : List KVs
  version : Nat
  committed : List (Nat × List KVs)
  deriving Repr, DecidableEq

namespace MSpec

def init (n : Nat) : MSpec := { cur := List.replicate n [], version := 0, committed := [] }

def modify (l : List KVs) (i : Nat) (f : KVs → KVs) : List KVs :=
  l.mapIdx (fun j m => if j = i then f m else m)

def step (s : MSpec) : MOp → MSpec
  | .set i k v => { s with cur := modify s.cur i (KVs.insert k v) }
  | .remove i k => { s with cur := modify s.cur i (KVs.erase k) }
  | .commit => { cur := s.cur, version := s.version + 1, committed := (s.version + 1, s.cur) :: s.committed }

def run (n : Nat) (ops : List MOp) : MSpec := ops.foldl step (init n)

/-- The map of substore `i` committed at height `h`. -/
def committedAt (s : MSpec) (h : Nat) (i : Nat) : Option KVs :=
  ((s.committed.find? (·.1 == h)).map (·.2)).bind (fun l => l[i]?)

end MSpec

/-! ## Histories with reads in between -/

/-- A block history interleaved with reads: historical reads at any height, reads of the working
state. Reads are events too, so that "no matter … what other historical reads happened in between"
is a statement about event lists. -/
inductive Ev where
  | op (o : MOp)
  | readAt (h : Nat) (i : Nat) (r : Read)
  | readWorking (i : Nat) (r : Read)
  deriving Repr, DecidableEq

/-- One event on the model: operations change the multistore, reads append their answer. -/
def evStep (acc : MS × List (Option ReadResult)) : Ev → MS × List (Option ReadResult)
  | .op o => (acc.1.step o, acc.2)
  | .readAt h i r => (acc.1, acc.2 ++ [acc.1.readAt h i r])
  | .readWorking i r => (acc.1, acc.2 ++ [acc.1.readWorking i r])

/-- Run an event list on the model: the final multistore and the answers of the reads, in order. -/
def runEvents (n : Nat) (evs : List Ev) : MS × List (Option ReadResult) :=
  evs.foldl evStep (MS.init n, [])

/-- One event on the per-height map specification. -/
def specEvStep (acc : MSpec × List (Option ReadResult)) : Ev → MSpec × List (Option ReadResult)
  | .op o => (acc.1.step o, acc.2)
  | .readAt h i r => (acc.1, acc.2 ++ [(acc.1.committedAt h i).map (fun m => KVs.read m r)])
  | .readWorking i r => (acc.1, acc.2 ++ [(acc.1.cur[i]?).map (fun m => KVs.read m r)])

/-- The same event list on the per-height map specification. -/
def specEvents (n : Nat) (evs : List Ev) : MSpec × List (Option ReadResult) :=
  evs.foldl specEvStep (MSpec.init n, [])

/-- Substore indices used by the reads of an event list are mounted. -/
def Ev.inRange (n : Nat) : Ev → Prop
  | .op _ => True
  | .readAt _ i _ => i < n
  | .readWorking i _ => i < n

end Iavl
