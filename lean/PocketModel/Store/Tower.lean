import PocketModel.Store.CacheKV
import PocketModel.Store.Prefix
/-!
# Towers of store wraps, and their map-overlay specification

A *tower* is the root store (`dbadapter.Store` over MemDB, modelled by the specification store
`KV`) with `n` wraps on top, each either a `cachekv.Store` (state `CStore`) or a `prefix.Store`
(state: the prefix).  `Tower.ops n : KVOps (T n)` composes the models `CacheKV.ops` and
`Prefix.ops` — every call on the top store runs the real algorithms of every layer below it.

`Tower.State`/`Tower.step` add the life-cycle operations of a history: `wrap` (`CacheWrap()`),
`pwrap p` (`prefix.NewStore`), `write` (`Write()` of the top cache store) and `pop` (drop the top
wrap: discarding a cache store without writing it).

`Spec` is the executable specification of the same histories in terms of plain maps: every cache
layer is just its pending map (`key ↦ some v | none`), the contents seen at a layer is the overlay /
prefix view of what is seen below.  `Props/C01.lean` proves that the two produce the same
observations on every history; the drivers run both next to the real code.

Core Lean only.
-/
namespace Tower

/-- One wrap. -/
inductive Layer where
  | cache (c : CacheKV.CStore)
  | pfx (p : Bytes)
  deriving Repr, DecidableEq

/-- A store wrapped once more. -/
def layerOps {σ : Type} (O : KVOps σ) : KVOps (σ × Layer) where
  get s k := match s.2 with
    | .cache c => let r := CacheKV.get O (s.1, c) k; ((r.1.1, .cache r.1.2), r.2)
    | .pfx p => let r := (Prefix.ops O).get (s.1, p) k; ((r.1.1, .pfx p), r.2)
  has s k := match s.2 with
    | .cache c => let r := CacheKV.has O (s.1, c) k; ((r.1.1, .cache r.1.2), r.2)
    | .pfx p => let r := (Prefix.ops O).has (s.1, p) k; ((r.1.1, .pfx p), r.2)
  set s k v := match s.2 with
    | .cache c => let r := CacheKV.set (s.1, c) k v; (r.1, .cache r.2)
    | .pfx p => let r := (Prefix.ops O).set (s.1, p) k v; (r.1, .pfx p)
  del s k := match s.2 with
    | .cache c => let r := CacheKV.del (s.1, c) k; (r.1, .cache r.2)
    | .pfx p => let r := (Prefix.ops O).del (s.1, p) k; (r.1, .pfx p)
  iter s asc st e := match s.2 with
    | .cache c => let r := CacheKV.iter O (s.1, c) asc st e; ((r.1.1, .cache r.1.2), r.2)
    | .pfx p => let r := (Prefix.ops O).iter (s.1, p) asc st e; ((r.1.1, .pfx p), r.2)

/-- `Write()` of the top wrap (a prefix store has no `Write`; nothing happens). -/
def layerWrite {σ : Type} (O : KVOps σ) (s : σ × Layer) : σ × Layer :=
  match s.2 with
  | .cache c => let r := CacheKV.write O (s.1, c); (r.1, .cache r.2)
  | .pfx _ => s

/-- State of a tower of `n` wraps (top = outermost pair component). -/
def T : Nat → Type
  | 0 => KV
  | n + 1 => T n × Layer

/-- The `KVStore` interface of the top of a tower. -/
def ops : (n : Nat) → KVOps (T n)
  | 0 => KV.ops
  | n + 1 => layerOps (ops n)

/-- A tower of any height. -/
structure State where
  n : Nat
  t : T n

/-- The root alone. -/
def State.init (m : KV) : State := ⟨0, m⟩

/-- Operations of a history. -/
inductive TOp where
  | kv (op : KVOp)
  | wrap
  | pwrap (p : Bytes)
  | write
  | pop
  deriving Repr, DecidableEq

/-- One step of a history on the model. -/
def step (s : State) : TOp → State × KVOut
  | .kv op => let r := (ops s.n).step s.t op; (⟨s.n, r.1⟩, r.2)
  | .wrap => (⟨s.n + 1, (s.t, Layer.cache CacheKV.empty)⟩, .unit)
  | .pwrap p => (⟨s.n + 1, (s.t, Layer.pfx p)⟩, .unit)
  | .write =>
    match s with
    | ⟨0, _⟩ => (s, .unit)
    | ⟨n + 1, t⟩ => (⟨n + 1, layerWrite (ops n) t⟩, .unit)
  | .pop =>
    match s with
    | ⟨0, _⟩ => (s, .unit)
    | ⟨n + 1, t⟩ => (⟨n, t.1⟩, .unit)

/-- A whole history. -/
def run (s : State) : List TOp → State × List KVOut
  | [] => (s, [])
  | op :: l =>
    let r := step s op
    let rs := run r.1 l
    (rs.1, r.2 :: rs.2)

/-! ## Specification: maps only -/

/-- A wrap in the specification: a cache store is its pending map, a prefix store its prefix. -/
inductive SLayer where
  | cache (pend : Assoc (Option Bytes))
  | pfx (p : Bytes)
  deriving Repr, DecidableEq

/-- Specification state: root contents and the wraps, top first. -/
structure Spec where
  layers : List SLayer
  root : KV
  deriving Repr, DecidableEq

namespace Spec

/-- Contents seen at the top of the wraps `ls` (top first) over root contents `m`. -/
def viewOf : List SLayer → KV → KV
  | [], m => m
  | .cache c :: ls, m => CacheKV.overlay (viewOf ls m) c
  | .pfx p :: ls, m => Prefix.view p (viewOf ls m)

def view (s : Spec) : KV := viewOf s.layers s.root

/-- A set (`some v`) or delete (`none`) issued at the top: recorded in the first cache layer on the
way down (keys gaining the prefixes passed), or applied to the root. -/
def put : List SLayer → KV → Bytes → Option Bytes → List SLayer × KV
  | [], m, k, ov => ([], CacheKV.applyEntry m (k, ov))
  | .cache c :: ls, m, k, ov => (.cache (Assoc.set c k ov) :: ls, m)
  | .pfx p :: ls, m, k, ov => let r := put ls m (p ++ k) ov; (.pfx p :: r.1, r.2)

/-- `Write()` at the top: the pending map is issued, in key order, to what is below, and emptied. -/
def write (s : Spec) : Spec :=
  match s.layers with
  | .cache c :: ls =>
    let r := c.foldl (fun acc kv => put acc.1 acc.2 kv.1 kv.2) (ls, s.root)
    ⟨.cache [] :: r.1, r.2⟩
  | _ => s

def step (s : Spec) : TOp → Spec × KVOut
  | .kv (.get k) => (s, .val (Assoc.get s.view k))
  | .kv (.has k) => (s, .bool (Assoc.get s.view k).isSome)
  | .kv (.set k v) => let r := put s.layers s.root k (some v); (⟨r.1, r.2⟩, .unit)
  | .kv (.del k) => let r := put s.layers s.root k none; (⟨r.1, r.2⟩, .unit)
  | .kv (.iter asc st e) => (s, .items (KV.iter s.view asc st e))
  | .wrap => (⟨.cache [] :: s.layers, s.root⟩, .unit)
  | .pwrap p => (⟨.pfx p :: s.layers, s.root⟩, .unit)
  | .write => (write s, .unit)
  | .pop => (⟨s.layers.tail, s.root⟩, .unit)

def run (s : Spec) : List TOp → Spec × List KVOut
  | [] => (s, [])
  | op :: l =>
    let r := step s op
    let rs := run r.1 l
    (rs.1, r.2 :: rs.2)

end Spec

/-- The specification state a model tower stands for: pending maps and prefixes, top first. -/
def absLayers : (n : Nat) → T n → List SLayer
  | 0, _ => []
  | n + 1, t =>
    (match t.2 with
      | .cache c => SLayer.cache (CacheKV.pending c)
      | .pfx p => SLayer.pfx p) :: absLayers n t.1

def rootOf : (n : Nat) → T n → KV
  | 0, m => m
  | n + 1, t => rootOf n t.1

def abs (s : State) : Spec := ⟨absLayers s.n s.t, rootOf s.n s.t⟩

end Tower
