import PocketModel.Basic.Bytes
/-!
# Height cache (`store/rootmulti/heightcache`) and the way `store/iavl/store.go` consults it

Two definition sets share everything except three functions collected in a `Variant`:

* `asIs`  — the code as it is in /repo (quirks included: `Get` of an absent key yields an empty
  non-nil slice; `Commit` pads `orderedKeys` with `len(data)` empty strings; the iterator swaps the
  bounds when `end == ""`, uses closed index arithmetic, and indexes `sortedKeys[-1]`);
* `fixed` — the code after `fixes/C10-heightcache.patch`.

A Go `[]byte` result is `Option Bytes` (`none` = nil slice).  Go `map[string]string` is an association
list sorted strictly by key (`Data`); Go's map iteration order never reaches an observable because the
code sorts the keys (`sort.Strings`).  Heights are unbounded `Int` (int64 in Go; `math.MaxInt64` in
`Commit` is modelled as "no slot seen yet").
-/

namespace HeightCache

/-- `map[string]string`: association list sorted strictly by key. -/
abbrev Data := List (Bytes × Bytes)

namespace Data
/-- `v, ok := m[k]` -/
def get : Data → Bytes → Option Bytes
  | [], _ => none
  | (k', v) :: r, k => if k = k' then some v else get r k
/-- `m[k] = v` -/
def set : Data → Bytes → Bytes → Data
  | [], k, v => [(k, v)]
  | (k', v') :: r, k, v =>
    if k < k' then (k, v) :: (k', v') :: r
    else if k = k' then (k, v) :: r
    else (k', v') :: set r k v
/-- `delete(m, k)` -/
def del : Data → Bytes → Data
  | [], _ => []
  | (k', v') :: r, k => if k = k' then r else (k', v') :: del r k
/-- the keys of the map after `sort.Strings` -/
def keys (d : Data) : List Bytes := d.map (·.1)
end Data

/-- What draining an iterator (`for ; it.Valid(); it.Next() { it.Key(); it.Value() }`) produced, and
whether it ended in a runtime panic. -/
structure IterResult where
  items : List (Bytes × Bytes)
  panicked : Bool
deriving DecidableEq, Repr

/-! ## The IAVL tree side (cache disabled): reads of the committed map -/

/-- `traverseInRange`'s leaf test: `start == nil || start <= key`, `end == nil || key < end`.
A nil bound is open; an empty non-nil `end` admits nothing. -/
def inRange (s e : Option Bytes) (k : Bytes) : Bool :=
  (match s with | none => true | some s => decide (s ≤ k)) &&
  (match e with | none => true | some e => decide (k < e))

/-- `newIAVLIterator(tree, start, end, ascending)` drained. -/
def treeIter (d : Data) (s e : Option Bytes) (asc : Bool) : IterResult :=
  let l := d.filter (fun p => inRange s e p.1)
  ⟨if asc then l else l.reverse, false⟩

/-! ## `MemoryHeightIterator` -/

/-- `MemoryHeightIterator`; `closed` stands for `sortedKeys == nil || dataset == nil`. -/
structure Iter where
  data : Data
  keys : List Bytes
  cur : Int
  startIdx : Int
  endIdx : Int
  start : Bytes
  end_ : Bytes
  asc : Bool
  closed : Bool

/-- `&MemoryHeightIterator{endIdx: -1, startIdx: 1}` -/
def emptyIter : Iter := ⟨[], [], 0, 1, -1, [], [], false, true⟩

/-- as is: `for ; startIdx < len(sortedKeys)-1; startIdx++ { if sortedKeys[startIdx] >= start { break } }`
(the first argument is `sortedKeys[startIdx:]`). -/
def findStart : List Bytes → Bytes → Nat → Nat
  | [], _, i => i
  | [_], _, i => i
  | k :: k' :: r, start, i => if start ≤ k then i else findStart (k' :: r) start (i + 1)

/-- as is: `for ; endIdx > 0 && endIdx > startIdx; endIdx-- { if sortedKeys[endIdx] <= end { break } }` -/
def findEnd (keys : List Bytes) (end_ : Bytes) (startIdx : Nat) : Nat → Nat
  | 0 => 0
  | e + 1 => if startIdx < e + 1 then (if keys.getD (e + 1) [] ≤ end_ then e + 1 else findEnd keys end_ startIdx e) else e + 1

/-- as is: `NewMemoryHeightIterator` -/
def newIterAsIs (data : Data) (start end_ : Bytes) (sortedKeys : List Bytes) (asc : Bool) : Iter :=
  if start ≠ [] ∧ end_ ≠ [] ∧ end_ < start then emptyIter
  else
    -- `if start > end { swap }`: reached with start > end only when end == ""
    let se : Bytes × Bytes := if end_ < start then (end_, start) else (start, end_)
    let keys := if sortedKeys.length = 0 then data.keys else sortedKeys
    let startIdx : Nat := if se.1 ≠ [] then findStart keys se.1 0 else 0
    let endIdx : Int :=
      if keys.length = 0 then -1
      else if se.2 ≠ [] then (findEnd keys se.2 startIdx (keys.length - 1) : Nat) else ((keys.length - 1 : Nat) : Int)
    ⟨data, keys, if asc then startIdx else endIdx, startIdx, endIdx, se.1, se.2, asc, false⟩

/-- as is: `Valid()`.  `none` = runtime panic (`sortedKeys[-1]`, index out of range).  The index is
evaluated iff `end != ""` or `start != ""` (short-circuit order of the Go condition). -/
def validAsIs (it : Iter) : Option Bool :=
  if it.endIdx < it.startIdx ∨ it.cur > it.endIdx then some false
  else if it.end_ ≠ [] ∨ it.start ≠ [] then
    if it.cur < 0 then none
    else
      let k := it.keys.getD it.cur.toNat []
      if (it.end_ ≠ [] ∧ it.end_ ≤ k) ∨ (it.start ≠ [] ∧ k < it.start) then some false
      else if it.closed then some false
      else some (!(decide (it.cur < 0) || decide (it.cur > (it.keys.length : Int) - 1)))
  else if it.closed then some false
  else some (!(decide (it.cur < 0) || decide (it.cur > (it.keys.length : Int) - 1)))

/-- fixed: `Valid()` -/
def validFixed (it : Iter) : Option Bool :=
  if it.closed then some false else some (decide (it.startIdx ≤ it.cur) && decide (it.cur ≤ it.endIdx))

/-- The caller's loop `for ; it.Valid(); it.Next() { it.Key(); it.Value() }`; `fuel` bounds the number
of `Valid` calls (`keys.length + 2` always suffices: `cur` moves monotonically through `[-1, len]`). -/
def drain (valid : Iter → Option Bool) (it : Iter) : Nat → IterResult
  | 0 => ⟨[], false⟩
  | fuel + 1 =>
    match valid it with
    | none => ⟨[], true⟩
    | some false => ⟨[], false⟩
    | some true =>
      let k := it.keys.getD it.cur.toNat []
      let r := drain valid { it with cur := if it.asc then it.cur + 1 else it.cur - 1 } fuel
      ⟨(k, (it.data.get k).getD []) :: r.items, r.panicked⟩

/-- `sort.Search(n, f)` with `f i = a[i] >= x` (`sort.SearchStrings`): the binary-search loop
`for i < j { h := (i+j)/2; if !f(h) { i = h+1 } else { j = h } }; return i`.  The first argument is
fuel; `j - i` strictly decreases, so `n` is always enough. -/
def searchLoop (keys : List Bytes) (x : Bytes) : Nat → Nat → Nat → Nat
  | 0, i, _ => i
  | fuel + 1, i, j =>
    if i < j then
      let h := (i + j) / 2
      if x ≤ keys.getD h [] then searchLoop keys x fuel i h else searchLoop keys x fuel (h + 1) j
    else i

def searchStrings (keys : List Bytes) (x : Bytes) : Nat := searchLoop keys x keys.length 0 keys.length

/-- fixed: `NewMemoryHeightIterator` -/
def newIterFixed (data : Data) (start end_ : Bytes) (sortedKeys : List Bytes) (asc : Bool) : Iter :=
  if start ≠ [] ∧ end_ ≠ [] ∧ end_ < start then emptyIter
  else
    let keys := if sortedKeys.length = 0 then data.keys else sortedKeys
    let startIdx : Int := if start ≠ [] then (searchStrings keys start : Nat) else 0
    let endIdx : Int := if end_ ≠ [] then ((searchStrings keys end_ : Nat) : Int) - 1 else (keys.length : Int) - 1
    ⟨data, keys, if asc then startIdx else endIdx, startIdx, endIdx, start, end_, asc, false⟩

/-! ## The two variants -/

/-- The three places where the as-is and the fixed code differ. -/
structure Variant where
  /-- `MemoryCache.Get` on the slot found: the returned slice -/
  get : Data → Bytes → Option Bytes
  /-- `MemoryCache.Commit`: the `orderedKeys` stored with the snapshot -/
  ordered : Data → List Bytes
  /-- `MemoryCache.Iterator/ReverseIterator` on the slot found, drained by the caller -/
  iter : Data → List Bytes → Option Bytes → Option Bytes → Bool → IterResult

/-- `string(b)` for a possibly nil slice -/
def str (b : Option Bytes) : Bytes := b.getD []

def asIs : Variant where
  get d k := some ((d.get k).getD [])                          -- `[]byte(m[k])`
  ordered d := List.replicate d.length [] ++ d.keys            -- `make([]string, len)` + append, sorted
  iter d ks s e asc :=
    let it := newIterAsIs d (str s) (str e) ks asc
    drain validAsIs it (it.keys.length + 2)

def fixed : Variant where
  get d k := d.get k
  ordered d := d.keys
  iter d ks s e asc :=
    let it := if e = some [] then emptyIter else newIterFixed d (str s) (str e) ks asc
    drain validFixed it (it.keys.length + 2)

/-! ## `MemoryCache` -/

/-- `StoreAtHeight` -/
structure Slot where
  height : Int
  data : Data
  orderedKeys : List Bytes

/-- `MemoryCache` (`current.orderedKeys` is never used) -/
structure Cache where
  capacity : Int
  past : List Slot
  curHeight : Int
  curData : Data

/-- `NewMemoryCache(size)` followed by `InitializeStoreCache(-1)`
(`MultiStoreMemoryCache.GetSingleStoreCache` on first use) -/
def Cache.new (size : Nat) : Cache := ⟨size, List.replicate size ⟨-1, [], []⟩, -1, []⟩

/-- `Initialize(currentData, version)` -/
def Cache.initialize (c : Cache) (d : Data) (version : Int) : Cache := { c with curData := d, curHeight := version }

/-- `Commit`'s search loop for the slot with the lowest height (first one on ties). -/
def lowestLoop : List Slot → Nat → Option (Int × Nat) → Option (Int × Nat)
  | [], _, acc => acc
  | s :: r, i, none => lowestLoop r (i + 1) (some (s.height, i))
  | s :: r, i, some (lh, li) =>
    if s.height < lh then lowestLoop r (i + 1) (some (s.height, i)) else lowestLoop r (i + 1) (some (lh, li))

/-- `Commit(height)`: overwrite the lowest slot with a copy of the current data.
(With capacity 0 the Go code panics on `pastHeights[-1]`; the capacity is the constant 12.) -/
def Cache.commit (V : Variant) (c : Cache) (height : Int) : Cache :=
  match lowestLoop c.past 0 none with
  | none => { c with curHeight := height }
  | some (_, idx) => { c with curHeight := height, past := c.past.set idx ⟨height, c.curData, V.ordered c.curData⟩ }

/-- `isHeightSafeToRead` -/
def Cache.safe (c : Cache) (h : Int) : Bool :=
  decide (h ≠ c.curHeight) && decide (h > c.curHeight - (1 + c.capacity)) && c.past.any (fun s => s.height = h)

/-- the slot both `Get` and `Iterator` select: the first one whose height matches -/
def Cache.slot (c : Cache) (h : Int) : Option Slot :=
  if c.safe h then c.past.find? (fun s => s.height = h) else none

/-- `Get(height, key)`: `none` = error (caller falls through to the tree) -/
def Cache.get (V : Variant) (c : Cache) (h : Int) (k : Bytes) : Option (Option Bytes) :=
  (c.slot h).map fun s => V.get s.data k

/-- `Iterator/ReverseIterator(height, start, end)` drained: `none` = error (falls through) -/
def Cache.iter (V : Variant) (c : Cache) (h : Int) (s e : Option Bytes) (asc : Bool) : Option IterResult :=
  (c.slot h).map fun sl => V.iter sl.data sl.orderedKeys s e asc

/-! ## `iavl.Store` with its cache -/

/-- `iavl.Store`: `cache = none` is `heightcache.InvalidCache` (every call errors).  `saved` is the
node database: the contents of every saved version, newest first. -/
structure Store where
  cache : Option Cache
  version : Int
  working : Data
  saved : List (Int × Data)

/-- `LoadStore` on an empty database with a fresh cache of the given capacity. -/
def Store.fresh (cap : Option Nat) : Store :=
  ⟨cap.map fun n => (Cache.new n).initialize [] 0, 0, [], []⟩

def savedAt (saved : List (Int × Data)) (h : Int) : Option Data :=
  (saved.find? (fun p => p.1 = h)).map (·.2)

inductive Op where
  | set (k v : Bytes)
  | del (k : Bytes)
  | commit
  /-- process restart: a new store object with a new cache over the same database -/
  | reopen
deriving Repr

/-- `Store.Set`, `Store.Delete`, `Store.Commit`, and `LoadStore` after a restart. -/
def Store.step (V : Variant) (s : Store) : Op → Store
  | .set k v => { s with working := s.working.set k v, cache := s.cache.map fun c => { c with curData := c.curData.set k v } }
  | .del k => { s with working := s.working.del k, cache := s.cache.map fun c => { c with curData := c.curData.del k } }
  | .commit =>
    let v := s.version + 1
    { s with version := v, saved := (v, s.working) :: s.saved, cache := s.cache.map fun c => c.commit V v }
  | .reopen =>
    let d := (savedAt s.saved s.version).getD []
    { s with working := d, cache := s.cache.map fun c => (Cache.new c.capacity.toNat).initialize d s.version }

def Store.run (V : Variant) (s : Store) (ops : List Op) : Store := ops.foldl (Store.step V) s

/-- `LazyLoadStore(h, cache)`: a store over the saved version `h` sharing the cache. -/
def Store.lazyLoad (s : Store) (h : Int) : Option Store :=
  (savedAt s.saved h).map fun d => { s with version := h, working := d }

inductive Read where
  | get (k : Bytes)
  | has (k : Bytes)
  /-- `Get` through a `cachekv` wrapper -/
  | getW (k : Bytes)
  /-- `Has` through a `cachekv` wrapper: `Get(key) != nil` -/
  | hasW (k : Bytes)
  | iter (s e : Option Bytes) (asc : Bool)
  /-- iteration through a `cachekv` wrapper (merge with an empty write cache) -/
  | iterW (s e : Option Bytes) (asc : Bool)
deriving Repr

inductive Result where
  | val (v : Option Bytes)
  | bool (b : Bool)
  | items (r : IterResult)
deriving DecidableEq, Repr

/-- `Store.Get` -/
def Store.get (V : Variant) (s : Store) (k : Bytes) : Option Bytes :=
  match s.cache.bind (fun c => c.get V s.version k) with
  | some v => v
  | none => s.working.get k

/-- `Store.Iterator` / `Store.ReverseIterator`, drained -/
def Store.iter (V : Variant) (s : Store) (st e : Option Bytes) (asc : Bool) : IterResult :=
  match s.cache.bind (fun c => c.iter V s.version st e asc) with
  | some r => r
  | none => treeIter s.working st e asc

/-- every read of the property; `MemoryCache.Has` always errors, so `Store.Has` is the tree's. -/
def Store.read (V : Variant) (s : Store) : Read → Result
  | .get k => .val (s.get V k)
  | .has k => .bool (s.working.get k).isSome
  | .getW k => .val (s.get V k)
  | .hasW k => .bool (s.get V k).isSome
  | .iter st e asc => .items (s.iter V st e asc)
  | .iterW st e asc => .items (s.iter V st e asc)

/-- the same read on the same node with the cache disabled -/
def Store.readNoCache (s : Store) (r : Read) : Result := Store.read asIs { s with cache := none } r

/-- Is the version of this (lazily loaded) store served from the cache? -/
def Store.served (s : Store) : Bool :=
  match s.cache with
  | none => false
  | some c => c.safe s.version

end HeightCache
