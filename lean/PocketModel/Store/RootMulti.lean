import PocketModel.Codec.Amino
/-!
# rootmulti.Store commit (store/rootmulti/store.go) — content-level model for C06

What is modelled, as the code is:

* `Store.stores : map[StoreKey]CommitStore` — a list `(name, substore)` in mount order.  Names are
  unique (`MountStoreWithDB` panics on a duplicate key or name).  The *iteration order* of the Go map
  in `commitStores` is an explicit oracle `σ` (any function returning a permutation of its input).
* A persistent substore (`iavl.Store`) at this level is its version and the list of blocks of writes
  it has received; `iavl.Store.Commit` = `SaveVersion` bumps the version and returns the root hash,
  which is an abstract function `TH` of that write history (C03/C04 model what the function is).
* `transient.Store`: a map; `Commit` replaces it by a fresh `MemDB` and returns the zero `CommitID`;
  `commitStores` skips it (`continue`) after committing, so it contributes no `StoreInfo`.
* `CommitInfo.Hash` = `merkle.SimpleHashFromMap(name ↦ StoreInfo.Hash())`, `StoreInfo.Hash() =
  tmhash(commitID.Hash)`; `SimpleHashFromMap` hashes the value again, sorts the pairs by key and
  computes tendermint's simple merkle tree over `EncodeByteSlice(key) ++ EncodeByteSlice(valuehash)`.
  `H` is `tmhash.Sum` (a parameter).
* `Store.Commit`: `version = lastCommitID.Version + 1`; the returned/stored `CommitID` is
  `{version, commitInfo.Hash()}`.
-/
namespace RootMulti

abbrev Name := Bytes
abbrev KV := List (Bytes × Bytes)

/-! ## tendermint simple merkle tree -/

/-- `merkle.leafHash`: `tmhash(0x00 || leaf)`. -/
def leafHash (H : Bytes → Bytes) (leaf : Bytes) : Bytes := H (0 :: leaf)
/-- `merkle.innerHash`: `tmhash(0x01 || left || right)`. -/
def innerHash (H : Bytes → Bytes) (l r : Bytes) : Bytes := H (1 :: (l ++ r))

/-- `merkle.getSplitPoint`: `k = 1 << (bits.Len(n)-1); if k == n { k >>= 1 }` — the largest power
of two strictly below `n`. -/
def splitPoint (n : Nat) : Nat :=
  let k := 2 ^ Nat.log2 n
  if k = n then k / 2 else k

theorem splitPoint_bounds (n : Nat) (h : 2 ≤ n) : 0 < splitPoint n ∧ splitPoint n < n := by
  unfold splitPoint
  have h1 : 2 ^ Nat.log2 n ≤ n := Nat.log2_self_le (by omega)
  have h2 : 0 < 2 ^ Nat.log2 n := Nat.pow_pos (by omega)
  simp only
  split <;> omega

/-- `merkle.SimpleHashFromByteSlices` (recursion on an explicit bound so that it evaluates in the
kernel; `simpleHashFromByteSlices` instantiates the bound with the number of items). -/
def simpleHashAux (H : Bytes → Bytes) : Nat → List Bytes → Bytes
  | _, [] => []
  | _, [x] => leafHash H x
  | 0, _ => []
  | fuel + 1, items =>
    let k := splitPoint items.length
    innerHash H (simpleHashAux H fuel (items.take k)) (simpleHashAux H fuel (items.drop k))

/-- `merkle.SimpleHashFromByteSlices`. -/
def simpleHashFromByteSlices (H : Bytes → Bytes) (items : List Bytes) : Bytes :=
  simpleHashAux H items.length items

/-- Go map assignment `m[k] = v` followed by `kv.Pairs.Sort()` by key: insertion into a list kept
sorted by key, a later value for the same key replacing the earlier one. -/
def sinsert (k : Name) (v : Bytes) : List (Name × Bytes) → List (Name × Bytes)
  | [] => [(k, v)]
  | (k', v') :: m =>
    if k < k' then (k, v) :: (k', v') :: m
    else if k = k' then (k, v) :: m
    else (k', v') :: sinsert k v m

/-- The sorted content of a Go `map[string][]byte` filled from a list of assignments. -/
def toSortedMap (l : List (Name × Bytes)) : List (Name × Bytes) :=
  l.foldl (fun m kv => sinsert kv.1 kv.2 m) []

/-- `merkle.KVPair.Bytes`: both parts length-prefixed. -/
def kvBytes (kv : Name × Bytes) : Bytes := Amino.encodeByteSlice kv.1 ++ Amino.encodeByteSlice kv.2

/-- `merkle.SimpleHashFromMap`: every value is hashed (`simpleMap.Set`), pairs sorted by key, then
the simple tree over the pair encodings. -/
def simpleHashFromMap (H : Bytes → Bytes) (l : List (Name × Bytes)) : Bytes :=
  simpleHashFromByteSlices H ((toSortedMap (l.map fun kv => (kv.1, H kv.2))).map kvBytes)

/-! ## commit ids and commit info -/

/-- `types.CommitID`. -/
structure CommitID where
  version : Nat
  hash : Bytes
  deriving DecidableEq, Repr, Inhabited

/-- `rootmulti.StoreInfo` (`Core.CommitID` flattened). -/
structure StoreInfo where
  name : Name
  cid : CommitID
  deriving DecidableEq, Repr, Inhabited

/-- `rootmulti.CommitInfo`. -/
structure CommitInfo where
  version : Nat
  infos : List StoreInfo
  deriving DecidableEq, Repr, Inhabited

/-- `StoreInfo.Hash`: `tmhash(si.Core.CommitID.Hash)` — neither name nor version is written. -/
def StoreInfo.hash (H : Bytes → Bytes) (si : StoreInfo) : Bytes := H si.cid.hash

/-- `CommitInfo.Hash`. -/
def CommitInfo.hash (H : Bytes → Bytes) (ci : CommitInfo) : Bytes :=
  simpleHashFromMap H (ci.infos.map fun si => (si.name, si.hash H))

/-- `CommitInfo.CommitID`. -/
def CommitInfo.commitID (H : Bytes → Bytes) (ci : CommitInfo) : CommitID := ⟨ci.version, ci.hash H⟩

/-! ## substores -/

/-- A write reaching a substore. -/
inductive Op where
  | set (k v : Bytes)
  | del (k : Bytes)
  deriving DecidableEq, Repr, Inhabited

/-- `dbadapter.Store.Set` on the transient `MemDB`. -/
def kvSet (k v : Bytes) (m : KV) : KV := (k, v) :: m.filter (fun e => e.1 ≠ k)
/-- `dbadapter.Store.Delete`. -/
def kvDel (k : Bytes) (m : KV) : KV := m.filter (fun e => e.1 ≠ k)
def kvApply (m : KV) : Op → KV
  | .set k v => kvSet k v m
  | .del k => kvDel k m

/-- `iavl.Store` seen from the multistore: `tree.version`, the blocks of writes already saved
(oldest first) and the writes since the last `Commit`. -/
structure PStore where
  version : Nat
  blocks : List (List Op)
  pending : List Op
  deriving DecidableEq, Repr, Inhabited

inductive Sub where
  | iavl (p : PStore)
  | transient (m : KV)
  deriving DecidableEq, Repr, Inhabited

/-- `store.GetStoreType() == types.StoreTypeTransient`. -/
def Sub.isTransient : Sub → Bool
  | .iavl _ => false
  | .transient _ => true

/-- `store.Commit()`: `iavl.Store.Commit` saves version+1 and returns `{version, root hash}`;
`transient.Store.Commit` drops the `MemDB` and returns the zero id. -/
def Sub.commit (TH : List (List Op) → Bytes) : Sub → Sub × CommitID
  | .iavl p =>
    let bl := p.blocks ++ [p.pending]
    (.iavl ⟨p.version + 1, bl, []⟩, ⟨p.version + 1, TH bl⟩)
  | .transient _ => (.transient [], ⟨0, []⟩)

/-- `KVStore.Set` / `Delete` on a substore. -/
def Sub.write (op : Op) : Sub → Sub
  | .iavl p => .iavl { p with pending := p.pending ++ [op] }
  | .transient m => .transient (kvApply m op)

/-- `rootmulti.Store` (the part `Commit` touches). -/
structure MS where
  lastVersion : Nat
  lastHash : Bytes
  stores : List (Name × Sub)
  deriving DecidableEq, Repr, Inhabited

/-- The map-iteration oracle: any rearrangement of the store list. -/
abbrev Oracle := List (Name × Sub) → List (Name × Sub)
def IsPerm (σ : Oracle) : Prop := ∀ l, (σ l).Perm l

/-- `commitStores`: iterate the store map in oracle order, commit every store, record a `StoreInfo`
for the non-transient ones in that order. -/
def commitStores (TH : List (List Op) → Bytes) (order : List (Name × Sub)) : List StoreInfo :=
  order.filterMap fun e => if e.2.isTransient then none else some ⟨e.1, (e.2.commit TH).2⟩

/-- `Store.Commit`: returns the new store and the `CommitInfo` that is persisted. -/
def commit (H : Bytes → Bytes) (TH : List (List Op) → Bytes) (σ : Oracle) (s : MS) : MS × CommitInfo :=
  let ci : CommitInfo := ⟨s.lastVersion + 1, commitStores TH (σ s.stores)⟩
  ({ lastVersion := s.lastVersion + 1, lastHash := ci.hash H,
     stores := s.stores.map fun e => (e.1, (e.2.commit TH).1) }, ci)

/-- `LastCommitID`. -/
def MS.lastCommitID (s : MS) : CommitID := ⟨s.lastVersion, s.lastHash⟩

/-- A write to the substore mounted under `name` (no such store: ignored here, a panic in Go). -/
def MS.write (s : MS) (name : Name) (op : Op) : MS :=
  { s with stores := s.stores.map fun e => if e.1 = name then (e.1, e.2.write op) else e }

/-- One block: its writes, then `Commit`. -/
abbrev Block := List (Name × Op)

def MS.applyBlock (s : MS) (b : Block) : MS := b.foldl (fun s w => s.write w.1 w.2) s

/-- Run a history of blocks; the oracle may differ at every height.  Returns the final store and
the `CommitID` reported by each `Commit`. -/
def run (H : Bytes → Bytes) (TH : List (List Op) → Bytes) (σ : Nat → Oracle) : MS → List Block → MS × List CommitID
  | s, [] => (s, [])
  | s, b :: bs =>
    let (s', ci) := commit H TH (σ s.lastVersion) (s.applyBlock b)
    let (s'', ids) := run H TH σ s' bs
    (s'', ci.commitID H :: ids)

/-- Names of the transient substores. -/
def MS.transientNames (s : MS) : List Name := (s.stores.filter fun e => e.2.isTransient).map (·.1)

/-- The multistore with its transient substores unmounted. -/
def MS.dropTransient (s : MS) : MS := { s with stores := s.stores.filter fun e => !e.2.isTransient }

/-- A block with the writes to the given (transient) names removed. -/
def Block.without (b : Block) (ts : List Name) : Block := b.filter fun w => !ts.contains w.1

/-- A fresh multistore (after `LoadLatestVersion` on an empty DB). -/
def MS.fresh (persistent transient : List Name) : MS :=
  ⟨0, [], persistent.map (fun n => (n, Sub.iavl ⟨0, [], []⟩)) ++ transient.map (fun n => (n, Sub.transient []))⟩

end RootMulti
