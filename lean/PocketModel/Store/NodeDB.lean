import PocketModel.Codec.AminoNode
import PocketModel.Store.RootMulti
/-!
# IAVL persistence (store/iavl/nodedb.go, mutable_tree.go) and the multistore's disk records

Model of the code **as it is**:

* `Tree` — a Go `*Node` with its children as sub-terms (hashes are computed, `hashTree`).
* `NDB` — the node database of one IAVL store behind its `PrefixDB`: three key spaces
  `n<hash> ↦ node bytes`, `o<toVersion><fromVersion><hash> ↦ hash`, `r<version> ↦ root hash`
  (the empty byte string is the root of the empty tree).  Keys are kept typed; `KeyFormat` is
  big-endian fixed width, so the typed order on versions `≥ 0` is the byte order.
* `MTree` — `MutableTree` + the parts of `nodeDB` that matter: `version`, working root,
  `lastSaved`, the `versions` set, the cached `ndb.latestVersion` (0 = not yet read), the db.
  `tree.orphans` is not stored: at `SaveVersion` it equals the nodes of `lastSaved` that no longer
  occur in the working tree (`addOrphans` records exactly the *persisted* nodes dropped by
  `recursiveSet/recursiveRemove/balance`; every replacement node carries the new version, so a
  dropped node never re-appears).  The correspondence check compares the orphan records.
* A block of `Set/Remove` is abstract here: `MTree.setRoot` installs the working tree it produced
  (C03 models how); what is modelled exactly is everything that happens to that tree afterwards.
* `SaveBranch` skips `persisted` nodes; in the model a node is persisted iff `node.version ≤
  persistedTo` (new nodes are created with `tree.version+1`, loaded ones have smaller versions;
  `persistedTo = tree.version` except after an idempotent re-save, see `MTree.persistedTo`).
* Writes of one `SaveVersion` / one `LoadVersionForOverwriting` go through `ndb.batch` and reach
  the DB in a single `Batch.Write`; all reads made meanwhile see the old DB.  The functions below
  therefore compute every read from the pre-state.
* `rootmulti`'s own records: `s/<version> ↦ CommitInfo`, `s/latest ↦ version` (kept decoded; the
  amino encoding is modelled in `Codec/AminoCommitInfo.lean`).
-/
namespace NodeDB
open Amino RootMulti

/-! ## association lists (Go maps / DB key spaces) -/

def aput {κ ν : Type} [DecidableEq κ] (k : κ) (v : ν) (m : List (κ × ν)) : List (κ × ν) :=
  (k, v) :: m.filter (fun e => e.1 ≠ k)
def adel {κ ν : Type} [DecidableEq κ] (k : κ) (m : List (κ × ν)) : List (κ × ν) :=
  m.filter (fun e => e.1 ≠ k)
def aget {κ ν : Type} [DecidableEq κ] (k : κ) : List (κ × ν) → Option ν
  | [] => none
  | (k', v) :: m => if k' = k then some v else aget k m

/-! ## trees -/

inductive Tree where
  | leaf (key value : Bytes) (version : Int)
  | inner (key : Bytes) (height size version : Int) (l r : Tree)
  deriving DecidableEq, Repr, Inhabited

namespace Tree
def version : Tree → Int
  | leaf _ _ v => v
  | inner _ _ _ v _ _ => v
def height : Tree → Int
  | leaf .. => 0
  | inner _ h .. => h
def size : Tree → Int
  | leaf .. => 1
  | inner _ _ s .. => s
def key : Tree → Bytes
  | leaf k .. => k
  | inner k .. => k
/-- All nodes, pre-order. -/
def subtrees : Tree → List Tree
  | t@(leaf ..) => [t]
  | t@(inner _ _ _ _ l r) => t :: (l.subtrees ++ r.subtrees)
/-- Key/value pairs in key order (the leaves, left to right). -/
def toList : Tree → List (Bytes × Bytes)
  | leaf k v _ => [(k, v)]
  | inner _ _ _ _ l r => l.toList ++ r.toList
end Tree

/-- `hashWithCount`: the node hash with the children's hashes filled in recursively. -/
def hashTree (H : Bytes → Bytes) : Tree → Bytes
  | .leaf k v ver => NodeRec.hash H ⟨0, 1, ver, k, v, [], []⟩
  | .inner k h s ver l r => NodeRec.hash H ⟨h, s, ver, k, [], hashTree H l, hashTree H r⟩

/-- The persisted record of a node (`leftHash/rightHash` as set by `SaveBranch`). -/
def Tree.toRec (H : Bytes → Bytes) : Tree → NodeRec
  | .leaf k v ver => ⟨0, 1, ver, k, v, [], []⟩
  | .inner k h s ver l r => ⟨h, s, ver, k, [], hashTree H l, hashTree H r⟩

def Tree.encode (H : Bytes → Bytes) (t : Tree) : Bytes := writeBytes (t.toRec H)

/-- `ImmutableTree.Hash`: nil for the empty tree. -/
def hashOpt (H : Bytes → Bytes) : Option Tree → Bytes
  | none => []
  | some t => hashTree H t

def subtreesOpt : Option Tree → List Tree
  | none => []
  | some t => t.subtrees

def toListOpt : Option Tree → List (Bytes × Bytes)
  | none => []
  | some t => t.toList

/-! ## the node database -/

structure NDB where
  nodes : List (Bytes × Bytes) := []
  orphans : List ((Int × Int × Bytes) × Bytes) := []
  roots : List (Int × Bytes) := []
  deriving DecidableEq, Repr, Inhabited

/-- The largest key satisfying `p` among the root records, 0 if none (all uses select keys `> 0`). -/
def maxKey (p : Int → Bool) (l : List (Int × Bytes)) : Int :=
  l.foldl (fun m e => if p e.1 ∧ m < e.1 then e.1 else m) 0

/-- `ndb.getPreviousVersion(v)`: reverse iteration over `[r1, r<v>)`, first key; 0 if none. -/
def NDB.prevVersion (db : NDB) (v : Int) : Int := maxKey (fun x => decide (1 ≤ x) && decide (x < v)) db.roots

/-- `getPreviousVersion(1<<63 - 1)`: the latest version on disk. -/
def NDB.latestOnDisk (db : NDB) : Int := maxKey (fun x => decide (1 ≤ x)) db.roots

/-- `SaveBranch`: post-order, skipping persisted nodes, `batch.Set(n<hash>, writeBytes)`. -/
def saveBranch (H : Bytes → Bytes) (cur : Int) : Tree → List (Bytes × Bytes) → List (Bytes × Bytes)
  | t@(.leaf _ _ ver), nodes => if ver ≤ cur then nodes else aput (hashTree H t) (t.encode H) nodes
  | t@(.inner _ _ _ ver l r), nodes =>
    if ver ≤ cur then nodes
    else aput (hashTree H t) (t.encode H) (saveBranch H cur r (saveBranch H cur l nodes))

/-- `GetNode` + lazy `getLeftNode/getRightNode`, unfolded eagerly.  `none` = a missing or
undecodable node (a panic in Go, at the time the child is touched).  A leaf's stored `size` is not
kept.  Fuel bounds the recursion (Go would not terminate on a hash cycle). -/
def load (nodes : List (Bytes × Bytes)) : Nat → Bytes → Option Tree
  | 0, _ => none
  | fuel + 1, hash =>
    match aget hash nodes with
    | none => none
    | some bz =>
    match makeNode bz with
    | none => none
    | some n =>
      if n.height = 0 then some (.leaf n.key n.value n.version)
      else
        match load nodes fuel n.leftHash, load nodes fuel n.rightHash with
        | some l, some r => some (.inner n.key n.height n.size n.version l r)
        | _, _ => none

/-- Load the tree under a root record (`len(root) == 0` ⇒ empty tree).  Fuel: the stored height
of the root node + 1 (children of a legitimate node are strictly lower). -/
def loadRoot (nodes : List (Bytes × Bytes)) (rootHash : Bytes) : Option (Option Tree) :=
  if rootHash = [] then some none
  else
    match aget rootHash nodes with
    | none => none
    | some bz =>
    match makeNode bz with
    | none => none
    | some n => (load nodes (n.height.toNat + 1) rootHash).map some

/-- `MutableTree` (+ `nodeDB` state). -/
structure MTree where
  version : Int := 0
  root : Option Tree := none
  lastSaved : Option Tree := none
  versions : List Int := []
  ndbLatest : Int := 0
  /-- Nodes of the in-memory tree with `version ≤ persistedTo` carry `persisted = true`.  Equal to
  `version` except after the idempotent branch of `SaveVersion`, which leaves the nodes created by
  the re-executed block un-persisted in memory (their bytes are on disk already). -/
  persistedTo : Int := 0
  db : NDB := {}
  deriving DecidableEq, Repr, Inhabited

/-- `NewMutableTree(db)`. -/
def MTree.new (db : NDB) : MTree := { db := db }

/-- The net effect of a block of `Set`/`Remove` calls: a new working tree. -/
def MTree.setRoot (t : MTree) (r : Option Tree) : MTree := { t with root := r }

/-- `ndb.getLatestVersion()` (reads the disk only while the cache is 0). -/
def MTree.latest (t : MTree) : Int := if t.ndbLatest = 0 then t.db.latestOnDisk else t.ndbLatest

/-- `tree.orphans` at `SaveVersion` time: the *persisted* nodes of the last saved tree that are gone
from the working tree (`addOrphans` skips nodes that were never persisted). -/
def orphansOf (persistedTo : Int) (old new : Option Tree) : List Tree :=
  (subtreesOpt old).filter fun s => decide (s.version ≤ persistedTo) && !(subtreesOpt new).contains s

/-- `MutableTree.SaveVersion`.  `none` = error return (`iavl.Store.Commit` panics on it) or the
`saveOrphan` panic.  Result: new state, hash, version. -/
def saveVersion (H : Bytes → Bytes) (t : MTree) : Option (MTree × Bytes × Int) :=
  let version := t.version + 1
  if t.versions.contains version then
    -- "version already exists": same hash ⇒ idempotent no-op, different hash ⇒ error
    let existing := (aget version t.db.roots).getD []
    if existing = hashOpt H t.root then
      some ({ t with version := version, lastSaved := t.root }, existing, version)
    else none
  else
    let latest := t.latest
    if version ≠ latest + 1 then none
    else
      let toV := t.db.prevVersion version
      let orph := orphansOf t.persistedTo t.lastSaved t.root
      if orph.any (fun o => decide (o.version > toV)) then none
      else
        let nodes := match t.root with
          | none => t.db.nodes
          | some r => saveBranch H t.persistedTo r t.db.nodes
        let orphans := orph.foldl (fun m o => aput (toV, o.version, hashTree H o) (hashTree H o) m) t.db.orphans
        let roots := aput version (hashOpt H t.root) t.db.roots
        some ({ version := version, root := t.root, lastSaved := t.root, versions := version :: t.versions,
                ndbLatest := if latest < version then version else latest,
                persistedTo := version,
                db := ⟨nodes, orphans, roots⟩ }, hashOpt H t.root, version)

/-- `MutableTree.LoadVersion(target)`: fills `versions` with **every** root on disk; `target == 0`
selects the **latest** version on disk; an empty disk returns 0 without error whatever the target. -/
def loadVersion (t : MTree) (target : Int) : Option (MTree × Int) :=
  if t.db.roots = [] then some (t, 0)
  else
    let versions := t.db.roots.foldl (fun vs e => if vs.contains e.1 then vs else e.1 :: vs) t.versions
    let latest := maxKey (fun x => decide (target = 0) || decide (x ≤ target)) t.db.roots
    if ¬ (target = 0 ∨ latest = target) then none
    else
      match loadRoot t.db.nodes ((aget latest t.db.roots).getD []) with
      | none => none
      | some root => some ({ t with version := latest, root := root, lastSaved := root, versions := versions, persistedTo := latest }, latest)

/-- `deleteNodesFrom(version, hash)`: the hashes whose node keys are deleted — every node reachable
from `hash` (read from the unmodified DB) whose stored version is `≥ version`. -/
def deleteNodesFrom (nodes : List (Bytes × Bytes)) (version : Int) : Nat → Bytes → Option (List Bytes)
  | 0, _ => none
  | fuel + 1, hash =>
    if hash = [] then some []
    else
      match aget hash nodes with
      | none => none
      | some bz =>
      match makeNode bz with
      | none => none
      | some n =>
        let sub := if n.height = 0 then some [] else
          match deleteNodesFrom nodes version fuel n.leftHash, deleteNodesFrom nodes version fuel n.rightHash with
          | some a, some b => some (a ++ b)
          | _, _ => none
        sub.map fun l => if n.version ≥ version then l ++ [hash] else l

/-- Recursion bound for a traversal starting at `root`: the stored height of that node + 1. -/
def nodeFuel (nodes : List (Bytes × Bytes)) (root : Bytes) : Nat :=
  (match aget root nodes with
    | none => 0
    | some bz => match makeNode bz with | none => 0 | some n => n.height.toNat) + 1

/-- `nodeDB.DeleteVersionsFrom(version)` followed by `ndb.Commit()`: one atomic batch. -/
def deleteVersionsFrom (t : MTree) (version : Int) : Option MTree :=
  let latest := t.latest
  let t := { t with ndbLatest := latest }
  if latest < version then some t
  else
    match aget latest t.db.roots with
    | none => none
    | some root =>
      let fuel := nodeFuel t.db.nodes root
      match deleteNodesFrom t.db.nodes version fuel root with
      | none => none
      | some dead =>
        let orphDead := (t.db.orphans.filter fun e => decide (e.1.2.1 ≥ version)).map (·.2)
        let nodes := t.db.nodes.filter fun e => !(dead.contains e.1) && !(orphDead.contains e.1)
        let orphans := t.db.orphans.filter fun e => !(decide (e.1.2.1 ≥ version) || decide (e.1.1 ≥ version - 1))
        let roots := t.db.roots.filter fun e => !(decide (e.1 ≥ version))
        some { t with db := ⟨nodes, orphans, roots⟩ }

/-- `MutableTree.LoadVersionForOverwriting(target)` (= `iavl.Store.Rollback`). -/
def loadVersionForOverwriting (t : MTree) (target : Int) : Option (MTree × Int) :=
  match loadVersion t target with
  | none => none
  | some (t, latest) =>
    match deleteVersionsFrom t (target + 1) with
    | none => none
    | some t => some ({ t with ndbLatest := latest, versions := t.versions.filter fun v => decide (v ≤ target) }, latest)

/-- `iavl.LoadStore(db, id)` with `lazyLoading = false`: a fresh tree, `LoadVersion(id.Version)`. -/
def loadStore (db : NDB) (version : Int) : Option MTree := (loadVersion (MTree.new db) version).map (·.1)

/-- A store's life between restarts: for each block install the working tree it produced and
`SaveVersion`.  `none` if a save fails. -/
def runSaves (H : Bytes → Bytes) : MTree → List (Option Tree) → Option MTree
  | t, [] => some t
  | t, r :: rs =>
    match saveVersion H (t.setRoot r) with
    | none => none
    | some (t', _, _) => runSaves H t' rs

/-- `MutableTree.GetImmutable(version)` / `LazyLoadVersion`: the saved tree of a version. -/
def getImmutable (db : NDB) (version : Int) : Option (Option Tree) :=
  match aget version db.roots with
  | none => none
  | some root => loadRoot db.nodes root

/-- `MutableTree.LazyLoadVersion(target)` as used by `LazyLoadStore`: errors if `target` is above
the latest version on disk or its root is absent; `target ≤ 0` means latest; nothing saved ⇒ nil tree. -/
def lazyLoadVersion (t : MTree) (target : Int) : Option (Option (Int × Option Tree)) :=
  let latest := t.latest
  if latest < target then none
  else if latest ≤ 0 then some none
  else
    let target := if target ≤ 0 then latest else target
    match getImmutable t.db target with
    | none => none
    | some r => some (some (target, r))

/-! ## rootmulti records and the multistore over its disk -/

structure CID where
  version : Int := 0
  hash : Bytes := []
  deriving DecidableEq, Repr, Inhabited

structure SInfo where
  name : Name
  cid : CID
  deriving DecidableEq, Repr, Inhabited

structure CInfo where
  version : Int
  infos : List SInfo
  deriving DecidableEq, Repr, Inhabited

/-- `CommitInfo.Hash` (see `RootMulti.CommitInfo.hash`). -/
def CInfo.hash (H : Bytes → Bytes) (ci : CInfo) : Bytes :=
  simpleHashFromMap H (ci.infos.map fun si => (si.name, H si.cid.hash))

def CInfo.commitID (H : Bytes → Bytes) (ci : CInfo) : CID := ⟨ci.version, ci.hash H⟩

/-- The version recorded for substore `n` in a commit info (the Go code builds a map from the
`StoreInfo`s: a duplicated name keeps the last entry; a missing name gives the zero `CommitID`). -/
def CInfo.verOf (ci : CInfo) (n : Name) : Int :=
  ((ci.infos.filter fun si => si.name = n).getLast?.map (·.cid.version)).getD 0

/-- What is on disk: one `NDB` per mounted IAVL store (`PrefixDB "s/k:<name>/"`), the commit-info
records and the latest-version record. -/
structure Disk where
  stores : List (Name × NDB) := []
  cinfos : List (Int × CInfo) := []
  latest : Option Int := none
  deriving DecidableEq, Repr, Inhabited

/-- `rootmulti.Store` with IAVL substores only (transient ones are the subject of C06). -/
structure MStore where
  lastCommitID : CID := {}
  stores : List (Name × MTree) := []
  cinfos : List (Int × CInfo) := []
  latest : Option Int := none
  deriving DecidableEq, Repr, Inhabited

def MStore.disk (s : MStore) : Disk := ⟨s.stores.map fun e => (e.1, e.2.db), s.cinfos, s.latest⟩

/-- `getLatestVersion(db)`. -/
def Disk.latestVersion (d : Disk) : Int := d.latest.getD 0

def Disk.storeDB (d : Disk) (n : Name) : NDB := (aget n d.stores).getD {}

/-- One substore inside `rootmulti.LoadVersion(0)` (since repo commit 2a0e88a): it is loaded with the
zero `CommitID` (⇒ `iavl LoadVersion(0)`, i.e. the latest version *that substore* has on disk); if it
comes back with a non-zero version — the debris of a first `Commit` that never completed — it is
rolled back to nothing (`Rollback(0)` = `LoadVersionForOverwriting(0)`, one atomic batch) and loaded
again from the now empty substore. -/
def loadStoreZero (db : NDB) : Option MTree :=
  match loadStore db 0 with
  | none => none
  | some t =>
    if t.version = 0 then some t
    else
      match loadVersionForOverwriting t 0 with
      | none => none
      | some (t', _) => loadStore t'.db 0

/-- `rootmulti.Store.LoadVersion(ver)` on a freshly mounted store (`names` = mounted IAVL stores).
`ver == 0`: every substore goes through `loadStoreZero`.  Otherwise the commit info of `ver` gives each
substore's version (a store missing from it gets the zero id; a duplicated name: the last wins, as
in the Go map `infos`). -/
def loadMS (H : Bytes → Bytes) (d : Disk) (names : List Name) (ver : Int) : Option MStore :=
  if ver = 0 then
    match names.mapM (fun n => (loadStoreZero (d.storeDB n)).map fun t => (n, t)) with
    | none => none
    | some stores => some ⟨{}, stores, d.cinfos, d.latest⟩
  else
    match aget ver d.cinfos with
    | none => none
    | some ci =>
      match names.mapM (fun n => (loadStore (d.storeDB n) (ci.verOf n)).map fun t => (n, t)) with
      | none => none
      | some stores => some ⟨ci.commitID H, stores, d.cinfos, d.latest⟩

/-- `LoadLatestVersion`. -/
def openMS (H : Bytes → Bytes) (d : Disk) (names : List Name) : Option MStore := loadMS H d names d.latestVersion

/-- One block at this level: the working tree each substore ends up with (stores not mentioned keep
their tree). -/
abbrev DBlock := List (Name × Option Tree)

def MStore.applyBlock (s : MStore) (b : DBlock) : MStore :=
  { s with stores := s.stores.map fun e => match aget e.1 b with
      | none => e
      | some r => (e.1, e.2.setRoot r) }

/-- An atomic write reaching the DB during `rootmulti.Store.Commit`: the `Batch.Write` of one
substore's `SaveVersion` (given by its effect, the substore's new `NDB`), or the final batch
`{s/<version> := commitInfo, s/latest := version}`. -/
inductive DWrite where
  | store (name : Name) (db : NDB)
  | final (version : Int) (ci : CInfo)
  deriving DecidableEq, Repr, Inhabited

def Disk.apply (d : Disk) : DWrite → Disk
  | .store n db => { d with stores := d.stores.map fun e => if e.1 = n then (n, db) else e }
  | .final v ci => { d with cinfos := aput v ci d.cinfos, latest := some v }

/-- `commitStores` in oracle order `order` (a permutation of the store names): every substore's
`SaveVersion`; `none` if one of them fails (panic). Returns the new substores (in mount order), the
`StoreInfo`s and the batches in the order they were written. -/
def commitStoresD (H : Bytes → Bytes) (order : List Name) (stores : List (Name × MTree)) :
    Option (List (Name × MTree) × List SInfo × List DWrite) :=
  order.foldlM (fun (acc : List (Name × MTree) × List SInfo × List DWrite) n =>
    match aget n acc.1 with
    | none => some acc
    | some t =>
      match saveVersion H t with
      | none => none
      | some (t', hash, ver) =>
        some (acc.1.map (fun e => if e.1 = n then (n, t') else e), acc.2.1 ++ [⟨n, ⟨ver, hash⟩⟩], acc.2.2 ++ [.store n t'.db]))
    (stores, [], [])

/-- `rootmulti.Store.Commit`: new store, returned `CommitID`, and the list of atomic writes. -/
def commitMS (H : Bytes → Bytes) (order : List Name) (s : MStore) : Option (MStore × CID × List DWrite) :=
  let version := s.lastCommitID.version + 1
  match commitStoresD H order s.stores with
  | none => none
  | some (stores, infos, ws) =>
    let ci : CInfo := ⟨version, infos⟩
    let cid : CID := ⟨version, ci.hash H⟩
    some (⟨cid, stores, aput version ci s.cinfos, some version⟩, cid, ws ++ [.final version ci])

/-- A history of blocks, each with the iteration order Go's map happened to use. Returns the final
store and the commit ids. -/
def runMS (H : Bytes → Bytes) : MStore → List (List Name × DBlock) → Option (MStore × List CID)
  | s, [] => some (s, [])
  | s, (order, b) :: rest =>
    match commitMS H order (s.applyBlock b) with
    | none => none
    | some (s', cid, _) => (runMS H s' rest).map fun r => (r.1, cid :: r.2)

/-- The disk after the first `k` atomic writes of a commit (a crash right after the `k`-th). -/
def crashDisk (d : Disk) (ws : List DWrite) (k : Nat) : Disk := (ws.take k).foldl Disk.apply d

/-- One substore inside `RollbackVersion`: `loadCommitStoreFromParams(key, id)` then `Rollback(height)`. -/
def rollbackStore (db : NDB) (ver height : Int) (n : Name) : Option (Name × MTree) :=
  match loadStore db ver with
  | none => none
  | some t => (loadVersionForOverwriting t height).map fun r => (n, r.1)

/-- `rootmulti.Store.RollbackVersion(height)` on a freshly mounted store: every substore is loaded
at the version recorded in the *latest* commit info, rolled back with `LoadVersionForOverwriting
(height)` (its own atomic batch), then one batch sets `s/latest := height` and deletes the commit
infos `height+1 ..= latest`.  `lastCommitID` is **not** touched. `none` = error/panic. -/
def rollbackMS (d : Disk) (names : List Name) (height : Int) : Option MStore :=
  let ver := d.latestVersion
  if height ≥ ver then none
  else
    match aget ver d.cinfos with
    | none => none
    | some ci =>
      match names.mapM (fun n => rollbackStore (d.storeDB n) (ci.verOf n) height n) with
      | none => none
      | some stores =>
        some ⟨{}, stores, d.cinfos.filter (fun e => !(decide (height + 1 ≤ e.1) && decide (e.1 ≤ ver))), some height⟩

end NodeDB
