import PocketModel.Basic.Bytes
/-!
# Abstract key-value store (the specification every pocket-core `KVStore` is compared with)

A store *is* a finite map `Bytes → Option Bytes`.  The canonical representation is the list of its
bindings in strictly ascending key order (`Assoc.Sorted`) — exactly what a full ascending iterator
of the store returns.  The same association-list functions are reused (with another value type)
for Go `map`s of the models (`cachekv.Store.cache`) and for `cachekv`'s `sortedCache`.

`KVOps σ` is the Go interface `store/types.KVStore` restricted to what the properties observe
(`Get/Has/Set/Delete/Iterator/ReverseIterator`) over an arbitrary state type `σ`.  Reads return the
new state as well, because real stores mutate on reads (`cachekv.Store.Get` fills a clean cache
entry, `Iterator` moves keys from `unsortedCache` to `sortedCache`).  An iterator is modelled by the
list of `(key, value)` pairs it yields when drained, in iteration order, fixed at creation.

`KV.ops : KVOps KV` is the specification store itself; it is also the model of the root
`dbadapter.Store{MemDB}` (tm-db semantics are assumed, see DESIGN.md §4).

Core Lean only.  Lemmas: `Proofs/Store/KV.lean`.
-/

/-- Association list keyed by byte strings. -/
abbrev Assoc (β : Type) := List (Bytes × β)

namespace Assoc
variable {β : Type}

/-- Strictly ascending keys (no duplicates). -/
def Sorted (m : Assoc β) : Prop := m.Pairwise (fun a b => a.1 < b.1)

instance (m : Assoc β) : Decidable (Sorted m) := by unfold Sorted; infer_instance

/-- Map lookup (first binding of `k`). -/
def get : Assoc β → Bytes → Option β
  | [], _ => none
  | (a, b) :: m, k => if k = a then some b else get m k

/-- Insert-or-replace keeping ascending order. -/
def set : Assoc β → Bytes → β → Assoc β
  | [], k, v => [(k, v)]
  | (a, b) :: m, k, v =>
    if k < a then (k, v) :: (a, b) :: m
    else if k = a then (k, v) :: m
    else (a, b) :: set m k v

/-- Remove the binding of `k` (if any). -/
def del : Assoc β → Bytes → Assoc β
  | [], _ => []
  | (a, b) :: m, k => if k = a then m else (a, b) :: del m k

def keys (m : Assoc β) : List Bytes := m.map (·.1)

end Assoc

/-- The specification store: strictly ascending list of `(key, value)`. -/
abbrev KV := Assoc Bytes

/-- `dbm.IsKeyInDomain(key, start, end)`: `start ≤ key` (a nil start compares below everything)
and, unless `end` is nil, `key < end`. -/
def inDomain (k : Bytes) (s e : Option Bytes) : Bool :=
  (match s with | none => true | some s => decide (s ≤ k)) &&
  (match e with | none => true | some e => decide (k < e))

namespace KV

/-- The bindings with key in `[s, e)`, ascending. -/
def range (m : KV) (s e : Option Bytes) : KV := m.filter (fun p => inDomain p.1 s e)

/-- Iteration order: ascending as stored, descending reversed. -/
def order {α : Type} (asc : Bool) (l : List α) : List α := if asc then l else l.reverse

/-- What `Iterator(s, e)` (`asc = true`) / `ReverseIterator(s, e)` (`asc = false`) yields. -/
def iter (m : KV) (asc : Bool) (s e : Option Bytes) : List (Bytes × Bytes) := order asc (range m s e)

end KV

/-- The observable `KVStore` interface over a state type `σ`. -/
structure KVOps (σ : Type) where
  /-- `Get(key)`; `none` is Go `nil`. -/
  get : σ → Bytes → σ × Option Bytes
  /-- `Has(key)`. -/
  has : σ → Bytes → σ × Bool
  /-- `Set(key, value)` (non-nil value). -/
  set : σ → Bytes → Bytes → σ
  /-- `Delete(key)`. -/
  del : σ → Bytes → σ
  /-- `Iterator(start, end)` (`asc = true`) or `ReverseIterator(start, end)`, drained. -/
  iter : σ → Bool → Option Bytes → Option Bytes → σ × List (Bytes × Bytes)

/-- The specification store as an implementation of the interface (model of `dbadapter.Store`
over MemDB: `Get` = B-tree lookup, iterators over `[start, end)`). -/
def KV.ops : KVOps KV where
  get m k := (m, Assoc.get m k)
  has m k := (m, (Assoc.get m k).isSome)
  set m k v := Assoc.set m k v
  del m k := Assoc.del m k
  iter m asc s e := (m, KV.iter m asc s e)

/-! ## Operation histories -/

/-- One call on the `KVStore` interface. -/
inductive KVOp where
  | get (k : Bytes)
  | has (k : Bytes)
  | set (k v : Bytes)
  | del (k : Bytes)
  | iter (asc : Bool) (s e : Option Bytes)
  deriving Repr, DecidableEq

/-- What the caller observes from one call. -/
inductive KVOut where
  | val (v : Option Bytes)
  | bool (b : Bool)
  | unit
  | items (l : List (Bytes × Bytes))
  deriving Repr, DecidableEq

namespace KVOps
variable {σ : Type}

/-- Perform one call. -/
def step (O : KVOps σ) (s : σ) : KVOp → σ × KVOut
  | .get k => let r := O.get s k; (r.1, .val r.2)
  | .has k => let r := O.has s k; (r.1, .bool r.2)
  | .set k v => (O.set s k v, .unit)
  | .del k => (O.del s k, .unit)
  | .iter asc st e => let r := O.iter s asc st e; (r.1, .items r.2)

/-- Perform a history of calls, collecting the observations in order. -/
def run (O : KVOps σ) (s : σ) : List KVOp → σ × List KVOut
  | [] => (s, [])
  | op :: ops =>
    let r := O.step s op
    let rs := run O r.1 ops
    (rs.1, r.2 :: rs.2)

end KVOps
