import PocketModel.Basic.Proto
import PocketModel.Store.Tower
/-!
# Line-protocol driver shared by C01 (cachekv) and C02 (prefix)

The Go harness (`harness/internal/kvh`) drives a stack of real stores — `dbadapter.Store{MemDB}`
at the bottom, `cachekv.Store` / `prefix.Store` wraps above — and writes one line per call with
the implementation's answer.  The driver keeps

* the **model** tower (`Tower.State`: the algorithms of every layer as coded), and
* the **specification** (`Tower.Spec`: pending maps and prefixes only; answers are map overlays),

and judges every answer: `PROPFAIL <sig>` when the implementation's answer differs from the
specification's (the property is violated on this input), `DIFF` when it agrees with the
specification but not with the model, `OK` otherwise.

Lines:
```
reset | wrap | pwrap <p> | pop | write            => ok
get <k> => <v|~>        has <k> => true|false     set <k> <v> => ok      del <k> => ok
iter <s> <e> => <items> riter <s> <e> => <items>  rootdump => <items>
iopen <id> <asc 1|0> <s> <e> => ok    inext <id> <n> => <items>    idrain <id> => <items>
```
`bset <k> <v>` / `bdel <k>` => ok: a write on the store *below* a cache wrap that holds nothing.
`pend <p> <k,k,…> => <e|~>` is a direct `PrefixEndBytes(p)` call; the keys are probes for the bound.
`<items>` is `[]` or `k:v,k:v,…`; a nil key / nil value argument must answer `PANIC`.
-/
namespace TowerDriver
open Tower

structure OpenIter where
  id : Nat
  model : List (Bytes × Bytes)
  spec : List (Bytes × Bytes)

structure St where
  model : State := State.init []
  spec : Spec := ⟨[], []⟩
  iters : List OpenIter := []

def init : St := {}

def renderItems (l : List (Bytes × Bytes)) : String :=
  if l.isEmpty then "[]" else ",".intercalate (l.map fun kv => s!"{Bytes.render kv.1}:{Bytes.render kv.2}")

def renderOut : KVOut → String
  | .val v => Bytes.renderOpt v
  | .bool b => toString b
  | .unit => "ok"
  | .items l => renderItems l

/-- Kind of the top wrap, used as the prefix of failure signatures. -/
def topKind (s : Spec) : String :=
  match s.layers with
  | [] => "root"
  | .cache _ :: _ => "cache"
  | .pfx _ :: _ => "prefix"

def judge (sig : String) (line : String) (impl spec model : String) : Verdict :=
  if impl ≠ spec then .propfail sig s!"{line} impl={impl} spec={spec}"
  else if impl ≠ model then .diff s!"{line} impl={impl} model={model}"
  else .ok

/-- Apply a tower operation to model and specification, judge the implementation's answer. -/
def apply (st : St) (name : String) (line : String) (op : TOp) (impl : String) : St × Verdict :=
  let m := Tower.step st.model op
  let s := Spec.step st.spec op
  ({ st with model := m.1, spec := s.1 },
    judge s!"{topKind st.spec}-{name}" line impl (renderOut s.2) (renderOut m.2))

def isTopWrap (st : St) : Bool := st.model.n > 0

def step (st : St) (pre post : List String) : St × Verdict :=
  let impl := " ".intercalate post
  let line := " ".intercalate pre
  match pre with
  | ["reset"] => (init, if impl = "ok" then .ok else .bad "reset")
  | ["wrap"] => apply st "wrap" line .wrap impl
  | ["pwrap", p] =>
    match Bytes.parse p with
    | some p => apply st "pwrap" line (.pwrap p) impl
    | none => (st, .bad "prefix")
  | ["pop"] => apply st "pop" line .pop impl
  | ["write"] => apply st "write" line .write impl
  | ["get", k] =>
    match Bytes.parseOpt k with
    | some (some k) => apply st "get" line (.kv (.get k)) impl
    | some none => (st, if !isTopWrap st then .bad "nil key at root" else if impl = "PANIC" then .ok else .diff s!"{line} impl={impl} model=PANIC")
    | none => (st, .bad "key")
  | ["has", k] =>
    match Bytes.parseOpt k with
    | some (some k) => apply st "has" line (.kv (.has k)) impl
    | some none => (st, if !isTopWrap st then .bad "nil key at root" else if impl = "PANIC" then .ok else .diff s!"{line} impl={impl} model=PANIC")
    | none => (st, .bad "key")
  | ["del", k] =>
    match Bytes.parseOpt k with
    | some (some k) => apply st "del" line (.kv (.del k)) impl
    | some none => (st, if !isTopWrap st then .bad "nil key at root" else if impl = "PANIC" then .ok else .diff s!"{line} impl={impl} model=PANIC")
    | none => (st, .bad "key")
  | ["set", k, v] =>
    match Bytes.parseOpt k, Bytes.parseOpt v with
    | some (some k), some (some v) => apply st "set" line (.kv (.set k v)) impl
    | some _, some _ => (st, if !isTopWrap st then .bad "nil key/value at root" else if impl = "PANIC" then .ok else .diff s!"{line} impl={impl} model=PANIC")
    | _, _ => (st, .bad "key/value")
  | ["iter", s, e] =>
    match Bytes.parseOpt s, Bytes.parseOpt e with
    | some s, some e => apply st "iter" line (.kv (.iter true s e)) impl
    | _, _ => (st, .bad "bounds")
  | ["riter", s, e] =>
    match Bytes.parseOpt s, Bytes.parseOpt e with
    | some s, some e => apply st "riter" line (.kv (.iter false s e)) impl
    | _, _ => (st, .bad "bounds")
  | ["rootdump"] =>
    let mr := rootOf st.model.n st.model.t
    (st, judge "rootdump" line impl (renderItems st.spec.root) (renderItems mr))
  | ["iopen", id, asc, s, e] =>
    match id.toNat?, Bytes.parseOpt s, Bytes.parseOpt e with
    | some id, some s, some e =>
      let a := asc = "1"
      let m := Tower.step st.model (.kv (.iter a s e))
      let sp := Spec.step st.spec (.kv (.iter a s e))
      let ml := match m.2 with | .items l => l | _ => []
      let sl := match sp.2 with | .items l => l | _ => []
      ({ st with model := m.1, spec := sp.1, iters := ⟨id, ml, sl⟩ :: st.iters.filter (·.id ≠ id) },
        if impl = "ok" then .ok else .bad "iopen")
    | _, _, _ => (st, .bad "iopen args")
  | ["inext", id, n] =>
    match id.toNat?, n.toNat? with
    | some id, some n =>
      match st.iters.find? (·.id = id) with
      | some it =>
        let st' := { st with iters := ⟨id, it.model.drop n, it.spec.drop n⟩ :: st.iters.filter (·.id ≠ id) }
        (st', judge "iter-open-next" line impl (renderItems (it.spec.take n)) (renderItems (it.model.take n)))
      | none => (st, .bad "unknown iterator")
    | _, _ => (st, .bad "inext args")
  | ["idrain", id] =>
    match id.toNat? with
    | some id =>
      match st.iters.find? (·.id = id) with
      | some it =>
        ({ st with iters := st.iters.filter (·.id ≠ id) },
          judge "iter-open-drain" line impl (renderItems it.spec) (renderItems it.model))
      | none => (st, .bad "unknown iterator")
    | none => (st, .bad "idrain args")
  | "bset" :: _ | "bdel" :: _ =>
    -- a set/delete on the store below a cache wrap that holds nothing (fresh or just written)
    let arg : Option (Bytes × Option Bytes) :=
      match pre with
      | ["bset", k, v] => do let k ← Bytes.parse k; let v ← Bytes.parse v; pure (k, some v)
      | ["bdel", k] => do let k ← Bytes.parse k; pure (k, none)
      | _ => none
    match arg, st.model, st.spec.layers with
    | some (k, ov), ⟨n + 1, (t, .cache c)⟩, .cache [] :: ls =>
      if c ≠ CacheKV.empty then (st, .bad "below-op: model cache not empty") else
      let t' : T n := match ov with | some v => (ops n).set t k v | none => (ops n).del t k
      let r := Spec.put ls st.spec.root k ov
      ({ st with model := ⟨n + 1, (t', .cache c)⟩, spec := ⟨.cache [] :: r.1, r.2⟩ },
        if impl = "ok" then .ok else .diff s!"{line} impl={impl} model=ok")
    | _, _, _ => (st, .bad "below-op needs an untouched cache wrap on top")
  | ["pend", p, ks] =>
    match Bytes.parse p, (ks.splitOn ",").mapM Bytes.parse, Bytes.parseOpt impl with
    | some p, some ks, some e =>
      -- the executable form of `prefixEnd_spec`, evaluated with the implementation's bound
      let okAt (k : Bytes) : Bool :=
        (decide (p ≤ k) && (match e with | none => true | some e => decide (k < e))) == Prefix.hasPrefix p k
      match ks.find? (fun k => !okAt k) with
      | some k => (st, .propfail "prefixend-bound" s!"{line} impl={impl} key={Bytes.render k}")
      | none =>
        let m := Bytes.renderOpt (Prefix.prefixEnd p)
        (st, if m = impl then .ok else .diff s!"{line} impl={impl} model={m}")
    | _, _, _ => (st, .bad "pend args")
  | _ => (st, .bad s!"op {line}")

end TowerDriver
