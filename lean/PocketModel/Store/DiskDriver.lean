import PocketModel.Basic.Proto
import PocketModel.Store.RawDisk
/-!
# Shared line-protocol driver for C04 / C07 / C08 (executable only)

The implementation's disk is rebuilt from the recorded atomic writes (`shadow`).  The trees each
commit saved are decoded *from those real bytes with the model decoder* and handed to the model's
`saveVersion`/`commitMS`, whose resulting disk must equal the shadow disk (node bytes, node hashes
via SHA-256, orphan records, roots, commit-info bytes, latest).  Reopen / lazy-load / rollback /
crash lines are compared with the model's functions (`DIFF`) and — as the executable specification of
the properties — with what the live store reported when each version was committed, a plain-map
oracle, a never-reopened replica and the uninterrupted run (`PROPFAIL`).

Contexts: after `crash b k` every PROPFAIL signature is prefixed `crash-` (`crash-first-commit-` when
the interrupted commit is the very first one); after `target h` with `rollback-`.
-/
namespace DiskDriver
open NodeDB RootMulti

structure Obs where
  cid : CID
  stores : List (Name × Int × Bytes × String) := []

structure CommitLog where
  version : Int            -- version produced
  pre : Disk               -- shadow disk before the commit
  preObs : List (Int × Obs)
  ws : List DWrite         -- the model's atomic writes
  events : Nat             -- number of recorded events

structure St where
  names : List Name := []
  shadow : Disk := {}
  model : Option MStore := none
  peek : Option MStore := none
  peekVer : Int := 0
  obs : List (Int × Obs) := []      -- what must be readable now
  orig : List (Int × Obs) := []     -- the uninterrupted main run
  log : List CommitLog := []
  base : Option (Disk × List (Int × Obs)) := none
  pfx : String := ""

def H := Sha256.sum

def parseCID (v h : String) : Option CID := do
  let v ← v.toInt?
  let h ← parseHash h
  pure ⟨v, h⟩

def latestObs (st : St) : Option (Int × Obs) :=
  st.obs.foldl (fun acc e => match acc with | none => some e | some a => if a.1 < e.1 then some e else some a) none

def cmpStore (t : MTree) (iver : Int) (ihash : Bytes) (dump : String) : Option String :=
  if t.version ≠ iver then some s!"store version model={t.version} impl={iver}"
  else if (if t.version > 0 then hashOpt H t.lastSaved else []) ≠ ihash then some s!"store hash model={renderHash (hashOpt H t.lastSaved)} impl={renderHash ihash}"
  else if renderKV (toListOpt t.root) ≠ dump then some s!"contents model={renderKV (toListOpt t.root)} impl={dump}"
  else none

def obsStore (o : Obs) (n : Name) : Option (Int × Bytes × String) := (o.stores.find? (·.1 = n)).map (·.2)

def pf (st : St) (sig detail : String) : Verdict := .propfail (st.pfx ++ sig) detail

def diskDiff (names : List Name) (m i : Disk) : String :=
  let d := names.foldl (fun acc n => acc ++ (let x := NDB.diffDetail (m.storeDB n) (i.storeDB n); if x = "" then "" else s!" [{nameStr n}:{x}]")) ""
  s!"{d} cinfos-equal={sameSet m.cinfos i.cinfos} latest-equal={m.latest == i.latest}"

/-- Executable form of `Tree.WF` (fields fit their machine types, children strictly lower). -/
def wfb : Tree → Bool
  | .leaf k v ver => decide (Amino.isInt64 ver) && decide (k.length < 2 ^ 63) && decide (v.length < 2 ^ 63)
  | .inner k h s ver l r => decide (Amino.isInt8 h) && decide (Amino.isInt64 s) && decide (Amino.isInt64 ver) && decide (k.length < 2 ^ 63) &&
      decide (0 ≤ l.height) && decide (l.height < h) && decide (0 ≤ r.height) && decide (r.height < h) && wfb l && wfb r

/-- Run-time monitor of the hypothesis `StepOK` the theorems of C04/C07/C08 make about consecutive working trees:
nodes kept (version ≤ current) come from the last saved tree, new nodes carry at most the next version, fields are
representable. -/
def stepOKb (k : Int) (prev next : Option Tree) : Bool :=
  (subtreesOpt next).all (fun s => (decide (s.version ≤ k + 1)) && (!(decide (s.version ≤ k)) || (subtreesOpt prev).contains s)) &&
  (match next with | none => true | some t => wfb t)

/-- Shape of a commit's write sequence: store batches (one store each) then `{s/<v>, s/latest}`. -/
def commitShape (batches : List (List RawOp)) (version : Int) : Option (List Name) :=
  match batches.getLast? with
  | none => none
  | some fin =>
    let finOk := match fin with
      | [.set (.cinfo v) _, .set .latest _] => v = version
      | _ => false
    let sb := batches.dropLast
    let order := sb.filterMap fun b => b.head?.bind (·.key.store?)
    if finOk && order.length = sb.length && (sb.zip order).all (fun (b, n) => b.all fun op => op.key.store? = some n)
    then some order else none

def stepCore (st : St) (pre post : List String) : St × Verdict :=
  match pre with
  | ["hist", _, ns] =>
    let names := (ns.splitOn ",").map nameOf
    ({ names := names, shadow := { stores := names.map fun n => (n, {}) } }, .ok)
  | ["panic", who] => (st, pf st "panic" s!"{who}: {post}")
  -- a software upgrade mounts an additional (empty) IAVL substore at the next reopen
  | ["mount", name] => ({ st with names := st.names ++ [nameOf name] }, .ok)
  | ["open"] =>
    match openMS H st.shadow st.names with
    | none => (st, .diff "model cannot open empty disk")
    | some m =>
      let o0 : Obs := ⟨{}, st.names.map fun n => (n, 0, [], "-")⟩
      ({ st with model := some m, obs := [(0, o0)] },
        if post = [toString m.lastCommitID.version, renderHash m.lastCommitID.hash] then .ok else .diff s!"open: model={m.lastCommitID.version} impl={post}")
  | ["commit", _] =>
    match post, st.model with
    | "PANIC" :: msg, _ => (st, pf st "commit-panics" s!"{msg}")
    | ver :: hash :: evs, some m =>
      match parseCID ver hash, (if evs = ["-"] then some [] else evs.mapM parseEvent) with
      | some cid, some batches =>
        -- in a re-execution some substores may take the idempotent branch and write nothing
        match commitShape batches cid.version with
        | none => (st, .diff s!"commit write sequence is not [store batches…, (commitInfo, latest)]: {evs.length} events")
        | some order0 =>
          match batches.foldlM (fun d b => Disk.applyRawAll d b) st.shadow with
          | none => (st, .diff "a multistore record of the implementation does not decode with the model decoder")
          | some shadow' =>
            match batches.findSome? checkNodeOps with
            | some e => ({ st with shadow := shadow' }, .diff s!"node encoding: {e}")
            | none =>
              -- the iteration order of `commitStores` is the order of the persisted StoreInfos
              let order1 := ((aget cid.version shadow'.cinfos).map fun ci => ci.infos.map (·.name)).getD order0
              let order := order1 ++ st.names.filter (fun n => !order1.contains n)
              let blockOpt : Option DBlock := st.names.mapM fun n =>
                match aget n m.stores with
                | none => none
                | some t =>
                  let db := shadow'.storeDB n
                  match aget (t.version + 1) db.roots with
                  | none => none
                  | some rh => (loadRoot db.nodes rh).map fun tr => (n, tr)
              match blockOpt with
              | none => ({ st with shadow := shadow' }, .diff "saved tree cannot be loaded from the implementation's disk with the model loader")
              | some block =>
                if !(block.all fun (n, tr) => match aget n m.stores with
                      | some t => stepOKb t.version t.lastSaved tr
                      | none => true) then
                  ({ st with shadow := shadow' }, .diff "hypothesis StepOK (node provenance / version bound / representable fields) does not hold for the implementation's trees")
                else
                match commitMS H order (m.applyBlock block) with
                | none => ({ st with shadow := shadow' }, .diff "model commit fails (SaveVersion error/panic) where the implementation succeeded")
                | some (m', mcid, ws) =>
                  let replayOf := st.orig.find? (·.1 = cid.version)
                  let lg : CommitLog := ⟨cid.version, st.shadow, st.obs, ws, batches.length⟩
                  let st' := { st with shadow := shadow', model := some m', obs := (cid.version, ⟨cid, []⟩) :: st.obs.filter (·.1 ≠ cid.version),
                                       log := if st.pfx = "" then lg :: st.log else st.log }
                  let prev := m.lastCommitID.version
                  let wsEff := ws.filter fun w => match w with
                    | .store n db => db ≠ (m.disk).storeDB n    -- idempotent re-saves write nothing
                    | _ => true
                  if cid.version ≠ prev + 1 then (st', pf st "version-not-succ" s!"prev={prev} got={cid.version}")
                  else if mcid ≠ cid then (st', .diff s!"commit id model={mcid.version} {renderHash mcid.hash} impl={ver} {hash}")
                  else if wsEff.length ≠ batches.length then (st', .diff s!"number of atomic writes model={wsEff.length} impl={batches.length}")
                  else if !(Disk.same st.names m'.disk shadow') then (st', .diff s!"disk after commit differs:{diskDiff st.names m'.disk shadow'}")
                  else if shadow'.cinfos.any (fun e => (aget e.1 (batches.flatten.filterMap fun op => match op with | .set (.cinfo v) bz => some (v, bz) | _ => none)).any (· ≠ encCommitInfo e.2)) then
                    (st', .diff "commit info bytes: model encoder ≠ implementation")
                  else match replayOf with
                    | some e => if e.2.cid = cid then (st', .ok) else (st', pf st "reexec-commitid-differs" s!"height {cid.version}: uninterrupted {renderHash e.2.cid.hash}, now {hash}")
                    | none => (st', .ok)
      | _, _ => (st, .bad "commit fields")
    | _, _ => (st, .bad "commit")
  | ["state", v, store] =>
    match post, st.model, v.toInt? with
    | [iver, ihash, live, oracle], some m, some v =>
      match iver.toInt?, parseHash ihash, aget (nameOf store) m.stores with
      | some iver, some ihash, some t =>
        let st' := { st with obs := st.obs.map fun e => if e.1 = v then (e.1, { e.2 with stores := (nameOf store, iver, ihash, live) :: e.2.stores }) else e }
        if live ≠ oracle then (st', pf st "live-contents-differ-from-map" s!"store {store} v{v}: live={live} oracle={oracle}")
        else
          let spec : Option Verdict :=
            match (st.orig.find? (·.1 = v)).bind (fun e => obsStore e.2 (nameOf store)) with
            | some (_, ohash, odump) =>
              if odump ≠ live ∨ ohash ≠ ihash then some (pf st "reexec-state-differs" s!"store {store} v{v}: uninterrupted {renderHash ohash} {odump}, now {renderHash ihash} {live}")
              else none
            | none => none
          match spec with
          | some vd => (st', vd)
          | none =>
            match cmpStore t iver ihash live with
            | some e => (st', .diff s!"state {store} v{v}: {e}")
            | none => (st', .ok)
      | _, _, _ => (st, .bad "state fields")
    | _, _, _ => (st, .bad "state")
  | ["reopen", which] =>
    let target : Option Int := if which = "latest" then none else which.toInt?
    let mm := match target with
      | none => openMS H st.shadow st.names
      | some v => loadMS H st.shadow st.names v
    let tv : Int := match target with | none => (latestObs st).map (·.1) |>.getD 0 | some v => v
    let expected := st.obs.find? (·.1 = tv)
    match post with
    | "ERR" :: _ | "PANIC" :: _ =>
      if expected.isSome then (st, pf st "reopen-fails" s!"version {tv} was committed but cannot be reopened: {post}")
      else if mm.isSome then (st, .diff s!"reopen {which}: model loads, implementation fails {post}")
      else (st, .ok)
    | ver :: hash :: evs =>
      -- writes the implementation performed while loading (discarding an uncommitted first version)
      match evs.mapM parseEvent with
      | none => (st, .bad "reopen events")
      | some batches =>
      match batches.foldlM (fun d b => Disk.applyRawAll d b) st.shadow with
      | none => (st, .diff "reopen: record does not decode")
      | some shadow' =>
      let st := { st with shadow := shadow' }
      match parseCID ver hash, mm with
      | some cid, some m2 =>
        let st' := if target.isNone then { st with model := some m2, peek := some m2, peekVer := tv } else { st with peek := some m2, peekVer := tv }
        if m2.lastCommitID ≠ cid then (st', .diff s!"reopen {which}: model lastCommitID={m2.lastCommitID.version} {renderHash m2.lastCommitID.hash} impl={post}")
        else if !(Disk.same st.names m2.disk shadow') then (st', .diff s!"disk after loading differs:{diskDiff st.names m2.disk shadow'}")
        else match expected with
        | none => (st', pf st "reopen-unknown-version" s!"version {tv} must not be readable but loads: {post}")
        | some e =>
          if e.2.cid ≠ cid then (st', pf st "reopen-lastcommitid" s!"expected {e.2.cid.version} {renderHash e.2.cid.hash}, reopened {ver} {hash}")
          else (st', .ok)
      | some _, none => (st, .diff s!"reopen {which}: model fails to load, implementation gives {post}")
      | _, _ => (st, .bad "reopen fields")
    | _ => (st, .bad "reopen")
  -- the running store is replaced by a new object loaded at a retained version below the newest one on disk (restart
  -- after a crash between the substore commits and the commit-info write); the history then continues from it, and
  -- what it re-commits must equal what was committed before
  | ["reopenat", v] =>
    match v.toInt?, post with
    | some v, [ver, hash] =>
      match parseCID ver hash, loadMS H st.shadow st.names v with
      | some cid, some m2 =>
        let st' := { st with model := some m2, peek := some m2, peekVer := v, orig := st.obs }
        if m2.lastCommitID ≠ cid then (st', .diff s!"reopenat {v}: model lastCommitID={m2.lastCommitID.version} {renderHash m2.lastCommitID.hash} impl={post}")
        else match st.obs.find? (·.1 = v) with
          | some e => if e.2.cid = cid then (st', .ok) else (st', pf st "reopen-lastcommitid" s!"expected {e.2.cid.version} {renderHash e.2.cid.hash}, reopened {ver} {hash}")
          | none => (st', pf st "reopen-unknown-version" s!"version {v}")
      | some _, none => (st, .diff s!"reopenat {v}: model fails to load")
      | _, _ => (st, .bad "reopenat fields")
    | some v, _ => (st, pf st "reopen-fails" s!"version {v} was committed but cannot be reopened: {post}")
    | _, _ => (st, .bad "reopenat")
  | ["rstate", _, store] =>
    match post, st.peek with
    | [iver, ihash, dump], some m =>
      match iver.toInt?, parseHash ihash, aget (nameOf store) m.stores with
      | some iver, some ihash, some t =>
        let spec : Option Verdict :=
          match (st.obs.find? (·.1 = st.peekVer)).bind (fun e => obsStore e.2 (nameOf store)) with
          | none => none   -- already reported on the reopen line
          | some (lver, lhash, ldump) =>
            if ldump ≠ dump then some (pf st "reopen-contents-differ" s!"store {store} v{st.peekVer}: committed={ldump} reopened={dump}")
            else if lhash ≠ ihash ∨ lver ≠ iver then some (pf st "reopen-roothash-differs" s!"store {store} v{st.peekVer}: committed={lver} {renderHash lhash} reopened={iver} {renderHash ihash}")
            else none
        match spec with
        | some v => (st, v)
        | none =>
          match cmpStore t iver ihash dump with
          | some e => (st, .diff s!"rstate {store} v{st.peekVer}: {e}")
          | none => (st, .ok)
      | _, _, _ => (st, .bad "rstate fields")
    | _, _ => (st, .bad "rstate")
  | ["lazy", v] =>
    match v.toInt?, st.model with
    | some v, some m =>
      let expected := st.obs.find? (·.1 = v)
      let mres : Option (List (Name × String)) := st.names.mapM fun n =>
        match aget n m.stores with
        | none => none
        | some t =>
          match lazyLoadVersion t v with
          | some (some (_, r)) => some (n, renderKV (toListOpt r))
          | _ => none
      match post with
      | "ERR" :: _ | "PANIC" :: _ =>
        if expected.isSome ∧ v ≠ 0 then (st, pf st "lazy-load-fails" s!"version {v}: {post}")
        else if mres.isSome then (st, .diff s!"lazy {v}: model loads, implementation fails")
        else (st, .ok)
      | parts =>
        let impl := parts.map fun p => match p.splitOn "=" with | [a, b] => (nameOf a, b) | _ => ([], "")
        if mres ≠ some impl then (st, .diff s!"lazy {v}: model≠impl")
        else match expected with
        | none => (st, pf st "lazy-unknown-version" s!"version {v} must not be readable but loads lazily")
        | some e =>
          if impl.any (fun p => (obsStore e.2 p.1).map (·.2.2) ≠ some p.2) then (st, pf st "lazy-contents-differ" s!"version {v}: {post}")
          else (st, .ok)
    | _, _ => (st, .bad "lazy")
  -- lazy load on a multistore with a substore mounted after genesis: `LoadLazyVersion` hands the multistore
  -- version to every substore, which is unspecified for a substore whose own versions lag behind;
  -- compared with the model only
  | ["lazym", v] =>
    match v.toInt?, st.model with
    | some v, some m =>
      let mres : Option (List (Name × String)) := st.names.mapM fun n =>
        match aget n m.stores with
        | none => none
        | some t =>
          match lazyLoadVersion t v with
          | some (some (_, r)) => some (n, renderKV (toListOpt r))
          | _ => none
      match post with
      | "ERR" :: _ | "PANIC" :: _ => (st, if mres.isSome then .diff s!"lazym {v}: model loads, implementation fails" else .ok)
      | parts =>
        let impl := parts.map fun p => match p.splitOn "=" with | [a, b] => (nameOf a, b) | _ => ([], "")
        (st, if mres ≠ some impl then .diff s!"lazym {v}: model≠impl" else .ok)
    | _, _ => (st, .bad "lazym")
  | ["replica", b] =>
    match b.toInt?, post with
    | some b, [ver, hash] =>
      match parseCID ver hash, st.orig.find? (·.1 = b + 1) <|> st.obs.find? (·.1 = b + 1) with
      | some cid, some e =>
        if e.2.cid = cid then (st, .ok) else (st, pf st "replica-commitid-differs" s!"height {b + 1}: persisted {renderHash e.2.cid.hash} replica {hash}")
      | _, _ => (st, .bad "replica obs")
    | _, _ => (st, .bad "replica")
  -- the main run is over: freeze its observations and disk
  | ["base"] => ({ st with base := some (st.shadow, st.obs), orig := st.obs }, .ok)
  -- C08: fork the disk of the finished main run; `rollback h` follows
  | ["target", h] =>
    match h.toInt?, st.base with
    | some _, some (d, o) => ({ st with shadow := d, obs := o, model := none, peek := none, pfx := "rollback-" }, .ok)
    | _, _ => (st, .bad "target")
  | ["rollback", h] =>
    match h.toInt? with
    | none => (st, .bad "rollback")
    | some h =>
      let mm := rollbackMS st.shadow st.names h
      let committed := (st.obs.find? (·.1 = h)).isSome ∧ (latestObs st).any (fun e => h < e.1)
      match post with
      | "ERR" :: msg :: evs =>
        -- the writes that reached the DB before the failure still happened
        let shadow' := ((if evs = ["-"] ∨ evs = [] then some [] else evs.mapM parseEvent).bind fun batches =>
          batches.foldlM (fun d b => Disk.applyRawAll d b) st.shadow).getD st.shadow
        if committed then
          ({ st with shadow := shadow', obs := st.obs.filter (fun e => e.1 ≤ h), model := none },
            pf st "failed" s!"RollbackVersion({h}) failed on a committed height: {msg}")
        else if mm.isSome then (st, .diff s!"rollback {h}: model succeeds, implementation fails {msg}")
        else (st, .ok)
      | "OK" :: evs =>
        match (if evs = ["-"] then some [] else evs.mapM parseEvent) with
        | none => (st, .bad "rollback events")
        | some batches =>
          match batches.foldlM (fun d b => Disk.applyRawAll d b) st.shadow with
          | none => (st, .diff "rollback: record does not decode")
          | some shadow' =>
            let st' := { st with shadow := shadow', obs := st.obs.filter (fun e => e.1 ≤ h), model := none }
            match mm with
            | none => (st', .diff s!"rollback {h}: model fails, implementation succeeds")
            | some m' =>
              if !(Disk.same st.names m'.disk shadow') then (st', .diff s!"disk after rollback differs:{diskDiff st.names m'.disk shadow'}")
              else if !committed then (st', pf st "rollback-to-uncommitted-height" s!"target {h} accepted")
              else (st', .ok)
      | _ => (st, .bad "rollback result")
  -- C07: the disk right after the k-th atomic write of the (uninterrupted) commit producing `ver`
  | ["crash", ver, k] =>
    match ver.toInt?, k.toNat? with
    | some ver, some k =>
      match st.log.find? (·.version = ver), (if post = ["-"] then some [] else post.mapM parseEvent) with
      | some lg, some batches =>
        match batches.foldlM (fun d b => Disk.applyRawAll d b) lg.pre with
        | none => (st, .diff "crash: record does not decode")
        | some shadow' =>
          let mdisk := crashDisk lg.pre lg.ws k
          let full := k ≥ lg.events
          let obs := if full then st.orig.filter (·.1 ≤ ver) else lg.preObs
          let st' := { st with shadow := shadow', obs := obs, model := none, peek := none,
                               pfx := if ver = 1 then "crash-first-commit-" else "crash-" }
          if batches.length ≠ min k lg.events then (st', .bad "crash prefix length")
          else if !(Disk.same st.names mdisk shadow') then (st', .diff s!"disk after crash {k} differs:{diskDiff st.names mdisk shadow'}")
          else (st', .ok)
      | _, _ => (st, .bad "crash log")
    | _, _ => (st, .bad "crash")
  | _ => (st, .bad s!"unknown {pre}")

/-- The driver step.  The implementation's own output contradicting the uninterrupted run (the property's
statement) takes precedence over a model/implementation difference on the same line. -/
def step (st : St) (pre post : List String) : St × Verdict :=
  let (st', v) := stepCore st pre post
  match pre, post with
  | ["commit", _], ver :: hash :: _ =>
    match parseCID ver hash with
    | some cid =>
      match st.orig.find? (·.1 = cid.version) with
      | some e =>
        if e.2.cid ≠ cid then
          match v with
          | .propfail .. => (st', v)
          | _ => (st', pf st "reexec-commitid-differs" s!"height {cid.version}: uninterrupted {renderHash e.2.cid.hash}, now {hash}")
        else (st', v)
      | none => (st', v)
    | none => (st', v)
  | _, _ => (st', v)

end DiskDriver
