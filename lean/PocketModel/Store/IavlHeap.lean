import PocketModel.Store.Iavl
/-!
# IAVL on an explicit heap (C09 stage B) — executable model of the Go code's aliasing behaviour

`PocketModel/Store/Iavl.lean` models a saved version as an immutable *value*.  The Go code shares
`*Node` objects between the working tree, saved versions and the node cache and mutates nodes in
place.  This file models exactly that: an explicit heap of node cells, the node DB (`hash ↦ record`),
the LRU node cache, and the mutating functions of `store/iavl/{node,mutable_tree,nodedb}.go` step by
step, **as they are** (clone discipline included).

Conventions
* An address is an index into `St.heap`; allocation appends, nothing is ever freed (a Go object that
  is still referenced cannot be collected; garbage is harmless).
* Go panics and the branches outside the modelled behaviour (see `saveVersion`) are `none`.
* Recursion through pointers needs fuel; `none` on fuel exhaustion.  The theorems
  (`Proofs/Store/IavlHeap*.lean`) show that `depth tree < fuel` suffices.
* The hash function is a parameter `H : HashIn → Hash`; `HashIn` is what `writeHashBytes` feeds to
  it (the inner **key is not hashed**; a leaf's value goes through `tmhash.Sum` first — folded into
  `H`).  Nothing here assumes injectivity.
* `ndb.batch` is not modelled: `SaveNode` writes reach the DB immediately.  (No `GetNode` happens
  between `SaveBranch` and `Commit`, so the difference is unobservable inside `SaveVersion`; batch
  atomicity is C07's subject.)
* `tmhash` never returns the empty string; the `len(hash) == 0` panic of `GetNode` and the
  `[]byte{}` encoding of an empty root are abstracted by `Option`.
* `Cfg` switches the clone discipline off at two places; `Cfg.asIs` is the Go code.  The other
  settings exist only for the counterexample theorems (they mirror two independently seeded bugs).
-/

namespace Iavl.Heap
open Iavl

abbrev Addr := Nat
abbrev Hash := Bytes

/-- What `Node.writeHashBytes` writes: height, size, version, then key and value (hash) for a leaf,
the two child hashes for an inner node. -/
inductive HashIn where
  | leaf (height size version : Nat) (key value : Bytes)
  | inner (height size version : Nat) (left right : Hash)
  deriving Repr, DecidableEq

/-- A Go `Node` object. -/
structure Cell where
  key : Bytes
  value : Option Bytes := none
  height : Nat
  size : Nat
  version : Nat
  hash : Option Hash := none
  leftHash : Option Hash := none
  rightHash : Option Hash := none
  leftPtr : Option Addr := none
  rightPtr : Option Addr := none
  persisted : Bool := false
  deriving Repr, DecidableEq, Inhabited

/-- A node record in the DB (`Node.writeBytes` / `MakeNode`). -/
structure Stored where
  key : Bytes
  value : Option Bytes
  height : Nat
  size : Nat
  version : Nat
  leftHash : Option Hash
  rightHash : Option Hash
  deriving Repr, DecidableEq

/-- `Node.writeBytes`: a leaf record carries the value, an inner record the two child hashes. -/
def Stored.ofCell (c : Cell) : Stored :=
  if c.height = 0 then
    { key := c.key, value := c.value, height := c.height, size := c.size, version := c.version,
      leftHash := none, rightHash := none }
  else
    { key := c.key, value := none, height := c.height, size := c.size, version := c.version,
      leftHash := c.leftHash, rightHash := c.rightHash }

/-- `MakeNode` followed by `node.hash = hash; node.persisted = true` (`nodeDB.GetNode`). -/
def Stored.toCell (s : Stored) (hh : Hash) : Cell :=
  { key := s.key, value := s.value, height := s.height, size := s.size, version := s.version,
    hash := some hh, leftHash := s.leftHash, rightHash := s.rightHash, persisted := true }

/-- The state shared by a `MutableTree`, its lazily loaded views and every `ImmutableTree`:
the Go heap and the `nodeDB` (records, root records, LRU node cache). -/
structure St where
  heap : List Cell := []
  db : Hash → Option Stored := fun _ => none
  /-- `r<version>` records: `none` = the empty root `[]byte{}`. -/
  roots : List (Nat × Option Hash) := []
  /-- `nodeCacheQueue`, least recently used first. -/
  queue : List (Hash × Addr) := []
  /-- `nodeCache`. -/
  cmap : Hash → Option Addr := fun _ => none
  cacheSize : Nat := 10000

namespace St

def alloc (st : St) (c : Cell) : St × Addr := ({ st with heap := st.heap ++ [c] }, st.heap.length)

def write (st : St) (a : Addr) (c : Cell) : St := { st with heap := st.heap.set a c }

/-- An in-place field update of the object at `a`. -/
def modify (st : St) (a : Addr) (f : Cell → Cell) : Option St :=
  match st.heap[a]? with
  | none => none
  | some c => some (st.write a (f c))

/-- `ndb.getRoot`. -/
def getRoot (st : St) (v : Nat) : Option (Option Hash) := (st.roots.find? (·.1 == v)).map (·.2)

/-- `ndb.getLatestVersion` (the cached field always equals the largest saved version: versions are
never deleted in this model). -/
def latestVersion (st : St) : Nat := st.roots.foldl (fun m p => max m p.1) 0

end St

/-- `list.MoveToBack` of the element holding object `a`. -/
def moveToBack (q : List (Hash × Addr)) (a : Addr) : List (Hash × Addr) :=
  q.filter (fun e => e.2 != a) ++ q.filter (fun e => e.2 == a)

/-- `nodeDB.cacheNode`: push back, map entry, evict the front element when over the limit (the
eviction deletes the map entry of the evicted element's hash). -/
def cacheNode (st : St) (hh : Hash) (a : Addr) : St :=
  let q := st.queue ++ [(hh, a)]
  let m : Hash → Option Addr := fun x => if x = hh then some a else st.cmap x
  if q.length > st.cacheSize then
    match q with
    | [] => { st with queue := q, cmap := m }
    | e :: rest => { st with queue := rest, cmap := fun x => if x = e.1 then none else m x }
  else { st with queue := q, cmap := m }

/-- `nodeDB.GetNode`: the cached object if there is one, else a fresh object decoded from the DB
record (panic if there is none), which is then cached. -/
def getNode (st : St) (hh : Hash) : Option (St × Addr) :=
  match st.cmap hh with
  | some a => some ({ st with queue := moveToBack st.queue a }, a)
  | none =>
    match st.db hh with
    | none => none
    | some s =>
      let r := st.alloc (s.toCell hh)
      some (cacheNode r.1 hh r.2, r.2)

/-- `Node.getLeftNode`: the pointer if set, else `GetNode(leftHash)`; the parent is not updated. -/
def getLeft (st : St) (a : Addr) : Option (St × Addr) :=
  match st.heap[a]? with
  | none => none
  | some c =>
    match c.leftPtr with
    | some p => some (st, p)
    | none =>
      match c.leftHash with
      | none => none
      | some hh => getNode st hh

/-- `Node.getRightNode`. -/
def getRight (st : St) (a : Addr) : Option (St × Addr) :=
  match st.heap[a]? with
  | none => none
  | some c =>
    match c.rightPtr with
    | some p => some (st, p)
    | none =>
      match c.rightHash with
      | none => none
      | some hh => getNode st hh

/-- `Node.calcHeightAndSize` — in place; each getter is called twice, as in the code. -/
def calcHeightAndSize (st : St) (a : Addr) : Option St := do
  let (st, l1) ← getLeft st a
  let (st, r1) ← getRight st a
  let cl ← st.heap[l1]?
  let cr ← st.heap[r1]?
  let st ← st.modify a (fun c => { c with height := max cl.height cr.height + 1 })
  let (st, l2) ← getLeft st a
  let (st, r2) ← getRight st a
  let cl ← st.heap[l2]?
  let cr ← st.heap[r2]?
  st.modify a (fun c => { c with size := cl.size + cr.size })

/-- `Node.calcBalance`. -/
def calcBalance (st : St) (a : Addr) : Option (St × Int) := do
  let (st, l) ← getLeft st a
  let (st, r) ← getRight st a
  let cl ← st.heap[l]?
  let cr ← st.heap[r]?
  some (st, (cl.height : Int) - (cr.height : Int))

/-- `Node.clone`: a fresh unpersisted object without hash; panics on a leaf. -/
def clone (st : St) (a : Addr) (version : Nat) : Option (St × Addr) :=
  match st.heap[a]? with
  | none => none
  | some c =>
    if c.height = 0 then none
    else some (st.alloc { key := c.key, height := c.height, version := version, size := c.size,
                          hash := none, leftHash := c.leftHash, leftPtr := c.leftPtr,
                          rightHash := c.rightHash, rightPtr := c.rightPtr, persisted := false })

/-- `NewNode`. -/
def newLeaf (key value : Bytes) (version : Nat) : Cell :=
  { key := key, value := some value, height := 0, size := 1, version := version }

/-- Where the clone discipline can be switched off (counterexamples only). -/
structure Cfg where
  /-- `rotateLeft/rotateRight` start with `node = node.clone(version)`. -/
  rotateClones : Bool := true
  /-- `recursiveSet` clones every inner node on the path, persisted or not. -/
  setClonesDirty : Bool := true
  deriving Repr, DecidableEq

/-- The Go code. -/
def Cfg.asIs : Cfg := {}

/-- `MutableTree.rotateRight` → `(newNode, orphaned)`. -/
def rotateRight (cfg : Cfg) (version : Nat) (st : St) (a : Addr) : Option (St × Addr × Addr) := do
  let (st, node) ← if cfg.rotateClones then clone st a version else some (st, a)
  let (st, orphaned) ← getLeft st node
  let (st, newNode) ← clone st orphaned version
  let cn ← st.heap[newNode]?
  let cnode ← st.heap[node]?
  let st ← st.modify newNode (fun c => { c with rightHash := cnode.hash, rightPtr := some node })
  let st ← st.modify node (fun c => { c with leftHash := cn.rightHash, leftPtr := cn.rightPtr })
  let st ← calcHeightAndSize st node
  let st ← calcHeightAndSize st newNode
  some (st, newNode, orphaned)

/-- `MutableTree.rotateLeft` → `(newNode, orphaned)`. -/
def rotateLeft (cfg : Cfg) (version : Nat) (st : St) (a : Addr) : Option (St × Addr × Addr) := do
  let (st, node) ← if cfg.rotateClones then clone st a version else some (st, a)
  let (st, orphaned) ← getRight st node
  let (st, newNode) ← clone st orphaned version
  let cn ← st.heap[newNode]?
  let cnode ← st.heap[node]?
  let st ← st.modify newNode (fun c => { c with leftHash := cnode.hash, leftPtr := some node })
  let st ← st.modify node (fun c => { c with rightHash := cn.leftHash, rightPtr := cn.leftPtr })
  let st ← calcHeightAndSize st node
  let st ← calcHeightAndSize st newNode
  some (st, newNode, orphaned)

/-- `MutableTree.balance` → `(newSelf, orphans)`; panics on a persisted node. -/
def balance (cfg : Cfg) (version : Nat) (st : St) (a : Addr) (orphans : List Addr) :
    Option (St × Addr × List Addr) := do
  let c ← st.heap[a]?
  if c.persisted then none
  else
    let (st, bal) ← calcBalance st a
    if bal > 1 then
      let (st, l) ← getLeft st a
      let (st, lbal) ← calcBalance st l
      if lbal ≥ 0 then
        let (st, newNode, orphaned) ← rotateRight cfg version st a
        some (st, newNode, orphans ++ [orphaned])
      else
        let (st, left) ← getLeft st a
        let st ← st.modify a (fun c => { c with leftHash := none })
        let (st, nl, leftOrphaned) ← rotateLeft cfg version st left
        let st ← st.modify a (fun c => { c with leftPtr := some nl })
        let (st, newNode, rightOrphaned) ← rotateRight cfg version st a
        some (st, newNode, orphans ++ [left, leftOrphaned, rightOrphaned])
    else if bal < -1 then
      let (st, r) ← getRight st a
      let (st, rbal) ← calcBalance st r
      if rbal ≤ 0 then
        let (st, newNode, orphaned) ← rotateLeft cfg version st a
        some (st, newNode, orphans ++ [orphaned])
      else
        let (st, right) ← getRight st a
        let st ← st.modify a (fun c => { c with rightHash := none })
        let (st, nr, rightOrphaned) ← rotateRight cfg version st right
        let st ← st.modify a (fun c => { c with rightPtr := some nr })
        let (st, newNode, leftOrphaned) ← rotateLeft cfg version st a
        some (st, newNode, orphans ++ [right, leftOrphaned, rightOrphaned])
    else some (st, a, orphans)

/-- `MutableTree.recursiveSet` → `(newSelf, updated, orphans)`. -/
def recursiveSet (cfg : Cfg) (version : Nat) :
    Nat → St → Addr → Bytes → Bytes → List Addr → Option (St × Addr × Bool × List Addr)
  | 0, _, _, _, _, _ => none
  | fuel + 1, st, a, key, value, orphans => do
    let c ← st.heap[a]?
    if c.height = 0 then
      if key < c.key then
        let (st, nl) := st.alloc (newLeaf key value version)
        let (st, n) := st.alloc { key := c.key, height := 1, size := 2, leftPtr := some nl,
                                  rightPtr := some a, version := version }
        some (st, n, false, orphans)
      else if c.key < key then
        let (st, nl) := st.alloc (newLeaf key value version)
        let (st, n) := st.alloc { key := key, height := 1, size := 2, leftPtr := some a,
                                  rightPtr := some nl, version := version }
        some (st, n, false, orphans)
      else
        let (st, nl) := st.alloc (newLeaf key value version)
        some (st, nl, true, orphans ++ [a])
    else
      let (st, node, orphans) ←
        if cfg.setClonesDirty || c.persisted then
          (clone st a version).map (fun r => (r.1, r.2, orphans ++ [a]))
        else some (st, a, orphans)
      let cn ← st.heap[node]?
      let (st, updated, orphans) ←
        if key < cn.key then do
          let (st, l) ← getLeft st node
          let (st, nl, updated, orphans) ← recursiveSet cfg version fuel st l key value orphans
          let st ← st.modify node (fun c => { c with leftPtr := some nl, leftHash := none })
          some (st, updated, orphans)
        else do
          let (st, r) ← getRight st node
          let (st, nr, updated, orphans) ← recursiveSet cfg version fuel st r key value orphans
          let st ← st.modify node (fun c => { c with rightPtr := some nr, rightHash := none })
          some (st, updated, orphans)
      if updated then some (st, node, updated, orphans)
      else
        let st ← calcHeightAndSize st node
        let (st, newNode, orphans) ← balance cfg version st node orphans
        some (st, newNode, updated, orphans)

/-- The four results of `MutableTree.recursiveRemove`. -/
structure RemoveRes where
  newHash : Option Hash
  newSelf : Option Addr
  newKey : Option Bytes
  value : Option Bytes
  deriving Repr, DecidableEq

/-- `if newKey != nil { newNode.key = newKey }` -/
def setKeyOpt (st : St) (a : Addr) : Option Bytes → Option St
  | some nk => st.modify a (fun c => { c with key := nk })
  | none => some st

/-- `MutableTree.recursiveRemove` → `(results, orphans)`. -/
def recursiveRemove (cfg : Cfg) (version : Nat) :
    Nat → St → Addr → Bytes → List Addr → Option (St × RemoveRes × List Addr)
  | 0, _, _, _, _ => none
  | fuel + 1, st, a, key, orphans => do
    let c ← st.heap[a]?
    if c.height = 0 then
      if key = c.key then some (st, ⟨none, none, none, c.value⟩, orphans ++ [a])
      else some (st, ⟨c.hash, some a, none, none⟩, orphans)
    else if key < c.key then
      let (st, l) ← getLeft st a
      let (st, res, orphans) ← recursiveRemove cfg version fuel st l key orphans
      if orphans.isEmpty then some (st, ⟨c.hash, some a, none, res.value⟩, orphans)
      else
        let orphans := orphans ++ [a]
        if res.newHash.isNone && res.newSelf.isNone then
          some (st, ⟨c.rightHash, c.rightPtr, some c.key, res.value⟩, orphans)
        else
          let (st, newNode) ← clone st a version
          let st ← st.modify newNode (fun c => { c with leftHash := res.newHash, leftPtr := res.newSelf })
          let st ← calcHeightAndSize st newNode
          let (st, newNode, orphans) ← balance cfg version st newNode orphans
          let cn ← st.heap[newNode]?
          some (st, ⟨cn.hash, some newNode, res.newKey, res.value⟩, orphans)
    else
      let (st, r) ← getRight st a
      let (st, res, orphans) ← recursiveRemove cfg version fuel st r key orphans
      if orphans.isEmpty then some (st, ⟨c.hash, some a, none, res.value⟩, orphans)
      else
        let orphans := orphans ++ [a]
        if res.newHash.isNone && res.newSelf.isNone then
          some (st, ⟨c.leftHash, c.leftPtr, none, res.value⟩, orphans)
        else
          let (st, newNode) ← clone st a version
          let st ← st.modify newNode (fun c => { c with rightHash := res.newHash, rightPtr := res.newSelf })
          let st ← setKeyOpt st newNode res.newKey
          let st ← calcHeightAndSize st newNode
          let (st, newNode, orphans) ← balance cfg version st newNode orphans
          let cn ← st.heap[newNode]?
          some (st, ⟨cn.hash, some newNode, none, res.value⟩, orphans)

/-! ## Hashing and saving -/

variable (H : HashIn → Hash)

/-- The argument of the hash function for the object `c` (`writeHashBytes`; panics when a child
hash of an inner node is missing). -/
def hashInput (c : Cell) : Option HashIn :=
  if c.height = 0 then some (.leaf c.height c.size c.version c.key (c.value.getD []))
  else
    match c.leftHash, c.rightHash with
    | some l, some r => some (.inner c.height c.size c.version l r)
    | _, _ => none

/-- `Node.hashWithCount` (count dropped): memoises the hash in every object reached through
pointers that has none yet, and writes the children's hashes into `leftHash/rightHash`. -/
def hashWithCount : Nat → St → Addr → Option (St × Hash)
  | 0, _, _ => none
  | fuel + 1, st, a => do
    let c ← st.heap[a]?
    match c.hash with
    | some hh => some (st, hh)
    | none =>
      let st ← match c.leftPtr with
        | some p => do
          let (st, lh) ← hashWithCount fuel st p
          st.modify a (fun c => { c with leftHash := some lh })
        | none => some st
      let st ← match c.rightPtr with
        | some p => do
          let (st, rh) ← hashWithCount fuel st p
          st.modify a (fun c => { c with rightHash := some rh })
        | none => some st
      let c ← st.heap[a]?
      let inp ← hashInput c
      let st ← st.modify a (fun c => { c with hash := some (H inp) })
      some (st, H inp)

/-- `Node._hash`: the memoised hash, else hash this object alone and memoise. -/
def hashSelf (st : St) (a : Addr) : Option (St × Hash) := do
  let c ← st.heap[a]?
  match c.hash with
  | some hh => some (st, hh)
  | none =>
    let inp ← hashInput c
    let st ← st.modify a (fun c => { c with hash := some (H inp) })
    some (st, H inp)

/-- `nodeDB.SaveNode`: write the record under the object's hash, mark it persisted, cache it. -/
def saveNode (st : St) (a : Addr) : Option St := do
  let c ← st.heap[a]?
  let hh ← c.hash
  if c.persisted then none
  else if c.height ≠ 0 && (c.leftHash.isNone || c.rightHash.isNone) then none
  else
    let st := { st with db := fun x => if x = hh then some (Stored.ofCell c) else st.db x }
    let st ← st.modify a (fun c => { c with persisted := true })
    some (cacheNode st hh a)

/-- `nodeDB.SaveBranch`: children first (their hashes are written into the parent), then the node
itself; finally the child pointers are dropped. Returns at once on a persisted node. -/
def saveBranch : Nat → St → Addr → Option (St × Hash)
  | 0, _, _ => none
  | fuel + 1, st, a => do
    let c ← st.heap[a]?
    if c.persisted then c.hash.map (fun hh => (st, hh))
    else
      let st ← match c.leftPtr with
        | some p => do
          let (st, lh) ← saveBranch fuel st p
          st.modify a (fun c => { c with leftHash := some lh })
        | none => some st
      let st ← match c.rightPtr with
        | some p => do
          let (st, rh) ← saveBranch fuel st p
          st.modify a (fun c => { c with rightHash := some rh })
        | none => some st
      let (st, hh) ← hashSelf H st a
      let st ← saveNode st a
      let st ← st.modify a (fun c => { c with leftPtr := none, rightPtr := none })
      some (st, hh)

/-! ## The tree objects -/

/-- The fields of a `MutableTree` object that are its own (`ndb` is the shared `St`). -/
structure MT where
  root : Option Addr := none
  version : Nat := 0
  lastSaved : Option Addr := none
  /-- `tree.orphans`: hash ↦ version of persisted nodes dropped from the working tree. -/
  orphans : List (Hash × Nat) := []
  /-- `tree.versions`. -/
  versions : List Nat := []
  deriving Repr, DecidableEq

/-- `MutableTree.addOrphans`: only persisted nodes are recorded; panics on a persisted node without
hash. -/
def addOrphans (st : St) (t : MT) (orphaned : List Addr) : Option MT :=
  orphaned.foldlM (fun (t : MT) a =>
    match st.heap[a]? with
    | none => none
    | some c =>
      if !c.persisted then some t
      else match c.hash with
        | none => none
        | some hh => some { t with orphans := (hh, c.version) :: t.orphans }) t

/-- `MutableTree.Set` → `updated`. -/
def set (cfg : Cfg) (fuel : Nat) (st : St) (t : MT) (key value : Bytes) : Option (St × MT × Bool) :=
  match t.root with
  | none =>
    let r := st.alloc (newLeaf key value (t.version + 1))
    some (r.1, { t with root := some r.2 }, false)
  | some a => do
    let (st, n, updated, orphaned) ← recursiveSet cfg (t.version + 1) fuel st a key value []
    let t ← addOrphans st { t with root := some n } orphaned
    some (st, t, updated)

/-- `if newRoot == nil && newRootHash != nil { tree.root = ndb.GetNode(newRootHash) } else { tree.root = newRoot }` -/
def newRootAfterRemove (st : St) (res : RemoveRes) : Option (St × Option Addr) :=
  match res.newSelf, res.newHash with
  | none, some hh => (getNode st hh).map (fun r => (r.1, some r.2))
  | p, _ => some (st, p)

/-- `MutableTree.Remove` → `(value, removed)`. -/
def remove (cfg : Cfg) (fuel : Nat) (st : St) (t : MT) (key : Bytes) :
    Option (St × MT × Option Bytes × Bool) :=
  match t.root with
  | none => some (st, t, none, false)
  | some a => do
    let (st, res, orphaned) ← recursiveRemove cfg (t.version + 1) fuel st a key []
    if orphaned.isEmpty then some (st, t, none, false)
    else
      let (st, root) ← newRootAfterRemove st res
      let t ← addOrphans st { t with root := root } orphaned
      some (st, t, res.value, true)

/-- `ImmutableTree.Hash` on the working tree (`WorkingHash`). -/
def workingHash (fuel : Nat) (st : St) (t : MT) : Option (St × Option Hash) :=
  match t.root with
  | none => some (st, none)
  | some a => (hashWithCount H fuel st a).map (fun r => (r.1, some r.2))

/-- Outcome of `SaveVersion`. -/
inductive SaveRes where
  | saved (hash : Option Hash) (version : Nat)
  | idempotent (hash : Option Hash) (version : Nat)
  | errDifferentHash (version : Nat)
  deriving Repr, DecidableEq

/-- `MutableTree.SaveVersion`.  Not modelled (`none`): `saveRoot`'s "must save consecutive versions"
error, which needs a hole in the saved versions. -/
def saveVersion (fuel : Nat) (st : St) (t : MT) : Option (St × MT × SaveRes) :=
  let version := t.version + 1
  if t.versions.contains version then do
    let existing := (st.getRoot version).getD none
    let (st, newHash) ← workingHash H fuel st t
    if existing = newHash then
      some (st, { t with version := version, lastSaved := t.root, orphans := [] }, .idempotent existing version)
    else some (st, t, .errDifferentHash version)
  else
    match t.root with
    | none =>
      if version ≠ st.latestVersion + 1 then none
      else
        let st := { st with roots := (version, none) :: st.roots }
        some (st, { t with version := version, versions := version :: t.versions, lastSaved := none, orphans := [] },
          .saved none version)
    | some a => do
      let (st, hh) ← saveBranch H fuel st a
      if version ≠ st.latestVersion + 1 then none
      else
        let st := { st with roots := (version, some hh) :: st.roots }
        some (st, { t with version := version, versions := version :: t.versions, lastSaved := t.root, orphans := [] },
          .saved (some hh) version)

/-- `MutableTree.Rollback`. -/
def rollback (t : MT) : MT :=
  if t.version > 0 then { t with root := t.lastSaved, orphans := [] } else { t with root := none, orphans := [] }

/-- `MutableTree.GetImmutable` → the root object of the returned `ImmutableTree`
(`none` inside = empty tree; outer `none` = panic; `.inl ()` would be `ErrVersionDoesNotExist`). -/
inductive ViewRes where
  | errMissing
  | errTooNew
  | nilTree
  | view (root : Option Addr) (version : Nat)
  deriving Repr, DecidableEq

def getImmutable (st : St) (v : Nat) : Option (St × ViewRes) :=
  match st.getRoot v with
  | none => some (st, .errMissing)
  | some none => some (st, .view none v)
  | some (some hh) => (getNode st hh).map (fun r => (r.1, .view (some r.2) v))

/-- `MutableTree.LazyLoadVersion`. -/
def lazyLoadVersion (st : St) (target : Int) : Option (St × ViewRes) :=
  let latest := st.latestVersion
  if (latest : Int) < target then some (st, .errTooNew)
  else if latest = 0 then some (st, .nilTree)
  else
    let tv : Nat := if target ≤ 0 then latest else target.toNat
    getImmutable st tv

/-- **Mutated variant** (counterexample only; mirrors seeded change C09-a): `LazyLoadVersion` with a
"fast path" that reuses the live working root when the requested version is the loaded one and the
working root is a persisted object ("every write rebuilds the path up to a new unpersisted root").
`Remove` of a leaf hanging directly under the root makes the *persisted sibling* the working root,
so the premise is false. -/
def lazyLoadVersionFast (st : St) (t : MT) (target : Int) : Option (St × ViewRes) :=
  let latest := st.latestVersion
  if (latest : Int) < target then some (st, .errTooNew)
  else if latest = 0 then some (st, .nilTree)
  else
    let tv : Nat := if target ≤ 0 then latest else target.toNat
    match t.root with
    | some a =>
      match st.heap[a]? with
      | some c => if tv = t.version && c.persisted then some (st, .view (some a) tv) else getImmutable st tv
      | none => none
    | none => getImmutable st tv

/-- `MutableTree.LoadVersion target` on the same tree object (`target = 0`: latest).  Returns the
loaded version; `none` in the second component = the "wanted to load target" error. -/
def loadVersion (st : St) (t : MT) (target : Nat) : Option (St × MT × Option Nat) :=
  if st.roots.isEmpty then some (st, t, some 0)
  else
    let versions := st.roots.foldl (fun vs p => if vs.contains p.1 then vs else p.1 :: vs) t.versions
    let latest := st.roots.foldl (fun m p => if p.1 > m ∧ (target = 0 ∨ p.1 ≤ target) then p.1 else m) 0
    let t := { t with versions := versions }
    if !(target = 0 || latest = target) then some (st, t, none)
    else
      match st.getRoot latest with
      | none | some none =>
        some (st, { t with root := none, version := latest, lastSaved := none, orphans := [] }, some latest)
      | some (some hh) => do
        let (st, a) ← getNode st hh
        some (st, { t with root := some a, version := latest, lastSaved := some a, orphans := [] }, some latest)

/-! ## Reads (`Node.get/has/getByIndex/traverseInRange` with lazy child loading) -/

/-- `Node.get`. -/
def get : Nat → St → Addr → Bytes → Option (St × Nat × Option Bytes)
  | 0, _, _, _ => none
  | fuel + 1, st, a, key => do
    let c ← st.heap[a]?
    if c.height = 0 then
      if c.key < key then some (st, 1, none)
      else if key < c.key then some (st, 0, none)
      else some (st, 0, c.value)
    else if key < c.key then
      let (st, l) ← getLeft st a
      get fuel st l key
    else
      let (st, r) ← getRight st a
      let cr ← st.heap[r]?
      let (st, idx, v) ← get fuel st r key
      some (st, idx + (c.size - cr.size), v)

/-- `Node.has`. -/
def has : Nat → St → Addr → Bytes → Option (St × Bool)
  | 0, _, _, _ => none
  | fuel + 1, st, a, key => do
    let c ← st.heap[a]?
    if c.key = key then some (st, true)
    else if c.height = 0 then some (st, false)
    else if key < c.key then
      let (st, l) ← getLeft st a
      has fuel st l key
    else
      let (st, r) ← getRight st a
      has fuel st r key

/-- `Node.getByIndex`. -/
def getByIndex : Nat → St → Addr → Int → Option (St × Option (Bytes × Bytes))
  | 0, _, _, _ => none
  | fuel + 1, st, a, i => do
    let c ← st.heap[a]?
    if c.height = 0 then
      if i = 0 then some (st, some (c.key, c.value.getD [])) else some (st, none)
    else
      let (st, l) ← getLeft st a
      let cl ← st.heap[l]?
      if i < (cl.size : Int) then getByIndex fuel st l i
      else
        let (st, r) ← getRight st a
        getByIndex fuel st r (i - (cl.size : Int))

/-- `Node.traverseInRange` (pre-order, never stopped): the leaves handed to the callback. -/
def traverseInRange (start end_ : Option Bytes) (ascending inclusive : Bool) :
    Nat → St → Addr → Option (St × List (Bytes × Bytes))
  | 0, _, _ => none
  | fuel + 1, st, a => do
    let c ← st.heap[a]?
    if c.height = 0 then
      if Node.startOrAfter start c.key && Node.beforeEnd end_ inclusive c.key then
        some (st, [(c.key, c.value.getD [])])
      else some (st, [])
    else
      let goL := Node.afterStart start c.key
      let goR := Node.beforeEnd end_ inclusive c.key
      let visitL : St → Option (St × List (Bytes × Bytes)) := fun st =>
        if goL then (getLeft st a).bind (fun p => traverseInRange start end_ ascending inclusive fuel p.1 p.2)
        else some (st, [])
      let visitR : St → Option (St × List (Bytes × Bytes)) := fun st =>
        if goR then (getRight st a).bind (fun p => traverseInRange start end_ ascending inclusive fuel p.1 p.2)
        else some (st, [])
      if ascending then (visitL st).bind (fun p => (visitR p.1).bind (fun q => some (q.1, p.2 ++ q.2)))
      else (visitR st).bind (fun p => (visitL p.1).bind (fun q => some (q.1, p.2 ++ q.2)))

/-- A read through a tree handle (`ImmutableTree.{Get,Has,GetByIndex,IterateRange[Inclusive]}`),
including the `root == nil` guards. -/
def readRootH (fuel : Nat) (st : St) (root : Option Addr) : Read → Option (St × ReadResult)
  | .get k => match root with
    | none => some (st, .get 0 none)
    | some a => (get fuel st a k).map (fun r => (r.1, .get r.2.1 r.2.2))
  | .has k => match root with
    | none => some (st, .has false)
    | some a => (has fuel st a k).map (fun r => (r.1, .has r.2))
  | .byIndex i => match root with
    | none => some (st, .byIndex none)
    | some a => (getByIndex fuel st a i).map (fun r => (r.1, .byIndex r.2))
  | .range s e asc incl => match root with
    | none => some (st, .range [])
    | some a => (traverseInRange s e asc incl fuel st a).map (fun r => (r.1, .range r.2))

/-! ## Abstraction: the pure tree an address stands for -/

/-- The pure tree (`Iavl.Node`) reached from a DB record. -/
def absDB (db : Hash → Option Stored) : Nat → Hash → Option Node
  | 0, _ => none
  | fuel + 1, hh => do
    let s ← db hh
    if s.height = 0 then some (.leaf s.key (s.value.getD []) s.version)
    else
      let lh ← s.leftHash
      let rh ← s.rightHash
      let l ← absDB db fuel lh
      let r ← absDB db fuel rh
      some (.inner s.key s.height s.size l r s.version)

/-- `abs heap db root`: the pure tree a reader walking from `a` sees *if every `GetNode` misses the
cache* (children by pointer when set, else by hash from the DB).  `Proofs.Store.IavlHeap`: under
the ownership invariant the cache never changes this. -/
def abs (st : St) : Nat → Addr → Option Node
  | 0, _ => none
  | fuel + 1, a => do
    let c ← st.heap[a]?
    if c.height = 0 then some (.leaf c.key (c.value.getD []) c.version)
    else
      let l ← match c.leftPtr with
        | some p => abs st fuel p
        | none => c.leftHash.bind (absDB st.db fuel)
      let r ← match c.rightPtr with
        | some p => abs st fuel p
        | none => c.rightHash.bind (absDB st.db fuel)
      some (.inner c.key c.height c.size l r c.version)

/-- `abs` of an optional root (`none` = out of fuel / dangling; `some none` = empty tree). -/
def absRoot (st : St) (fuel : Nat) : Option Addr → Option (Option Node)
  | none => some none
  | some a => (abs st fuel a).map some

/-! ## The system: one `MutableTree`, its node DB, and the root handles readers hold -/

/-- The tree object, the shared heap/DB/cache, and the root handles of the `ImmutableTree`s /
lazily loaded trees that were handed out and are still held (oldest first). -/
structure Sys where
  st : St := {}
  tree : MT := {}
  views : List (Option Addr) := []

/-- Operations of a history, reads included (they allocate and touch the node cache). -/
inductive HOp where
  | set (k v : Bytes)
  | remove (k : Bytes)
  | save
  | rollback
  | workingHash
  | getImmutable (v : Nat)
  | lazyLoad (target : Int)
  | readWorking (r : Read)
  | readView (i : Nat) (r : Read)
  deriving Repr, DecidableEq

/-- What an operation answers. -/
inductive HOut where
  | updated (b : Bool)
  | removed (v : Option Bytes) (b : Bool)
  | saved (r : SaveRes)
  | unit
  | hash (h : Option Hash)
  | opened (ok : Bool)
  | read (res : Option ReadResult)
  deriving Repr, DecidableEq

/-- One operation on the system (`none` = panic / out of fuel / outside the modelled behaviour). -/
def stepH (cfg : Cfg) (fuel : Nat) (sys : Sys) : HOp → Option (Sys × HOut)
  | .set k v => (set cfg fuel sys.st sys.tree k v).map (fun r => ({ sys with st := r.1, tree := r.2.1 }, .updated r.2.2))
  | .remove k =>
    (remove cfg fuel sys.st sys.tree k).map (fun r => ({ sys with st := r.1, tree := r.2.1 }, .removed r.2.2.1 r.2.2.2))
  | .save => (saveVersion H fuel sys.st sys.tree).map (fun r => ({ sys with st := r.1, tree := r.2.1 }, .saved r.2.2))
  | .rollback => some ({ sys with tree := rollback sys.tree }, .unit)
  | .workingHash => (workingHash H fuel sys.st sys.tree).map (fun r => ({ sys with st := r.1 }, .hash r.2))
  | .getImmutable v =>
    (getImmutable sys.st v).map (fun r => match r.2 with
      | .view root _ => ({ sys with st := r.1, views := sys.views ++ [root] }, .opened true)
      | _ => ({ sys with st := r.1 }, .opened false))
  | .lazyLoad target =>
    (lazyLoadVersion sys.st target).map (fun r => match r.2 with
      | .view root _ => ({ sys with st := r.1, views := sys.views ++ [root] }, .opened true)
      | _ => ({ sys with st := r.1 }, .opened false))
  | .readWorking r => (readRootH fuel sys.st sys.tree.root r).map (fun x => ({ sys with st := x.1 }, .read (some x.2)))
  | .readView i r =>
    match sys.views[i]? with
    | none => some (sys, .read none)
    | some h => (readRootH fuel sys.st h r).map (fun x => ({ sys with st := x.1 }, .read (some x.2)))

/-- A history on the heap model; the answers in order. -/
def runH (cfg : Cfg) (fuel : Nat) : Sys → List HOp → Option (Sys × List HOut)
  | sys, [] => some (sys, [])
  | sys, op :: rest =>
    match stepH H cfg fuel sys op with
    | none => none
    | some (sys', out) => (runH cfg fuel sys' rest).map (fun r => (r.1, out :: r.2))

/-! ## The write-once discipline (decidable; the run-time monitor of `Driver/C09b.lean` evaluates it on
the real heap, `Proofs.Store.IavlHeap` proves it of every operation above) -/

/-- May an object observed as `c` be observed as `c'` later?  Key, value, height, size and version
never change.  A persisted object never changes at all.  A hash, once memoised, stays; a child hash
may be filled in but never replaced; child pointers are dropped only at the moment the object
becomes persisted (both at once), and a persisted object has a hash and no pointers. -/
def cellLe (c c' : Cell) : Bool :=
  c'.key == c.key && c'.value == c.value && c'.height == c.height && c'.size == c.size
  && c'.version == c.version
  && (if c.persisted then c' == c
      else
        (c.hash.isNone || c'.hash == c.hash)
        && (c.leftHash.isNone || c'.leftHash == c.leftHash)
        && (c.rightHash.isNone || c'.rightHash == c.rightHash)
        && (if c'.persisted then c'.hash.isSome && c'.leftPtr.isNone && c'.rightPtr.isNone
            else c'.leftPtr == c.leftPtr && c'.rightPtr == c.rightPtr))

/-- Does the in-memory object agree with the DB record stored under its hash? -/
def cellMatchesRecord (c : Cell) (s : Stored) : Bool := Stored.ofCell c == s

end Iavl.Heap

/-! ## Pure counterparts of the two operations `Iavl.Tree` lacks (reload of an older version and the
idempotent re-commit), used by the stage-B driver and refinement theorems -/
namespace Iavl.Tree
open Iavl

/-- `MutableTree.LoadVersion target` on the same tree object, on the pure model: the working tree
and `lastSaved` become the saved tree of the largest retained version `≤ target` (any, for
`target = 0`); `none` = "wanted to load target …" error (tree unchanged). -/
def loadVersion (t : Tree) (target : Nat) : Tree × Option Nat :=
  if t.versions.isEmpty then (t, some 0)
  else
    let latest := t.versions.foldl (fun m p => if p.1 > m ∧ (target = 0 ∨ p.1 ≤ target) then p.1 else m) 0
    if !(target = 0 || latest = target) then (t, none)
    else
      let root := (t.getImmutable latest).getD none
      ({ t with root := root, version := latest, lastSaved := root }, some latest)

/-- Outcome of `SaveVersion` including the branch for an already existing version. -/
inductive SaveOutcome where
  | saved (version : Nat)
  | idempotent (version : Nat)
  | errDifferent
  deriving Repr, DecidableEq

/-- `MutableTree.SaveVersion` with its "version already exists" branch: equal root hashes are equal
trees in the pure model. -/
def saveVersionX (t : Tree) : Tree × SaveOutcome :=
  let v := t.version + 1
  if t.versionExists v then
    if t.getImmutable v = some t.root then ({ t with version := v, lastSaved := t.root }, .idempotent v)
    else (t, .errDifferent)
  else (t.saveVersion, .saved v)

end Iavl.Tree
