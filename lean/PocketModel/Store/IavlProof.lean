import PocketModel.Basic.Bytes
/-!
# IAVL existence / absence proofs and the multistore proof op

Mirrors `store/iavl/{proof.go, proof_path.go, proof_range.go, proof_iavl_value.go,
proof_iavl_absence.go}`, the `prove=true` branch of `store/iavl/store.go:Query`,
`store/rootmulti/proof.go` and `CommitInfo.Hash` (`store/rootmulti/store.go`, tendermint
`crypto/merkle/simple_map.go`, `simple_tree.go`).

Everything is parametric in

* `H : Bytes → Bytes` — `tmhash.Sum` (SHA-256);
* `enc : Int → Int → Int → Bytes → Bytes → Bytes` — the byte string that is hashed for a node:
  `EncodeInt8(height) ‖ EncodeVarint(size) ‖ EncodeVarint(version) ‖ EncodeByteSlice(a) ‖ EncodeByteSlice(b)`.
  A leaf hashes `enc 0 1 version key H(value)`, an inner node `enc height size version leftHash rightHash`
  (`Node.writeHashBytes`, `ProofLeafNode.Hash`, `ProofInnerNode.Hash` all use this one layout);
* `encKV : Bytes → Bytes → Bytes` — `KVPair.Bytes()` = `EncodeByteSlice(key) ‖ EncodeByteSlice(value)`.

The theorems assume `enc`/`encKV` injective (true of the amino encoding on int8/int64 ranges) and state
hash collisions as an explicit disjunct.  A Go byte slice that is only ever tested with `len(x) == 0`
is a `Bytes` with `[]` for nil/empty.

`Fixes` selects, per repair proposed in `/verif/fixes/C05-*.patch`, the code as it is (`false`) or the
repaired code (`true`).
-/
namespace IavlProof

/-- Which of the proposed repairs are applied (`Fixes.none` = /repo as it is). -/
structure Fixes where
  /-- `C05-rangeproof-strict-nodes.patch`: `_computeRootHash` rejects inner nodes with a non-positive
  height, with both or neither child hash, and `InnerNodes` paths that do not descend leftmost. -/
  strictNodes : Bool
  /-- `C05-multistore-dupnames.patch`: `MultiStoreProofOp.Run` rejects duplicate store names. -/
  dupNames : Bool
  /-- `C05-absence-proof-successor-key.patch`: the prover uses `key ‖ 0x00` where it used `cpIncr(key)`. -/
  succKey : Bool
deriving DecidableEq, Repr

def Fixes.none : Fixes := ⟨false, false, false⟩
def Fixes.all : Fixes := ⟨true, true, true⟩

/-! ## Trees -/

/-- An IAVL tree as `DumpShape` shows it: leaves carry key, value, version; inner nodes carry height,
size, version and the routing key (smallest key of the right subtree). -/
inductive Tree where
  | leaf (key value : Bytes) (version : Int)
  | inner (height size version : Int) (key : Bytes) (l r : Tree)
deriving Repr

/-- the leaves in key order: (key, value, version) -/
def Tree.leaves : Tree → List (Bytes × Bytes × Int)
  | .leaf k v ver => [(k, v, ver)]
  | .inner _ _ _ _ l r => Tree.leaves l ++ Tree.leaves r

/-- `ImmutableTree.Get`: descent by the routing keys -/
def Tree.find : Tree → Bytes → Option Bytes
  | .leaf k v _, key => if k = key then some v else none
  | .inner _ _ _ nk l r, key => if key < nk then Tree.find l key else Tree.find r key

/-- `ProofInnerNode` -/
structure PIN where
  height : Int
  size : Int
  version : Int
  left : Bytes
  right : Bytes
deriving DecidableEq, Repr

/-- `ProofLeafNode` -/
structure PLeaf where
  key : Bytes
  valueHash : Bytes
  version : Int
deriving DecidableEq, Repr

/-- `PathToLeaf`: first element is closest to the root. -/
abbrev Path := List PIN

/-- `RangeProof` (exported fields) -/
structure RangeProof where
  leftPath : Path
  innerNodes : List Path
  leaves : List PLeaf
deriving DecidableEq, Repr

section
variable (H : Bytes → Bytes) (enc : Int → Int → Int → Bytes → Bytes → Bytes)

/-- `Node._hash` / `hashWithCount` -/
def Tree.hash : Tree → Bytes
  | .leaf k v ver => H (enc 0 1 ver k (H v))
  | .inner h s ver _ l r => H (enc h s ver (Tree.hash l) (Tree.hash r))

/-- `ProofInnerNode.Hash(childHash)`: the child goes left iff `len(pin.Left) == 0`; when `Left` is
set, `Right` does not reach the hash. -/
def PIN.hash (p : PIN) (child : Bytes) : Bytes :=
  if p.left = [] then H (enc p.height p.size p.version child p.right)
  else H (enc p.height p.size p.version p.left child)

/-- `ProofLeafNode.Hash()` -/
def PLeaf.hash (l : PLeaf) : Bytes := H (enc 0 1 l.version l.key l.valueHash)

/-- `PathToLeaf.computeRootHash(leafHash)`: fold from the leaf-most node up to the root. -/
def pathHash : Path → Bytes → Bytes
  | [], x => x
  | p :: rest, x => PIN.hash H enc p (pathHash rest x)

/-- `pathWithLeaf.computeRootHash()` -/
def pathLeafHash (path : Path) (l : PLeaf) : Bytes := pathHash H enc path (PLeaf.hash H enc l)

end

/-- `PathToLeaf.isLeftmost()` -/
def isLeftmost (p : Path) : Bool := p.all fun n => n.left = []
/-- `PathToLeaf.isRightmost()` -/
def isRightmost (p : Path) : Bool := p.all fun n => n.right = []

/-! ## Prover -/

/-- `cpIncr`: the byte string plus one as a big-endian number; all-0xFF input gives `00…00` one byte
longer (so `cpIncr [0xff] = [0,0] < [0xff]`); empty input gives `[0]`. -/
def cpIncrRev : Bytes → Bytes × Bool   -- on the reversed string; the flag = carry out
  | [] => ([], true)
  | b :: rest => if b < 0xFF then ((b + 1) :: rest, false) else
      let (r, c) := cpIncrRev rest
      (0 :: r, c)

def cpIncr (bz : Bytes) : Bytes :=
  if bz = [] then [0] else
  let (r, c) := cpIncrRev bz.reverse
  if c then r.reverse ++ [0] else r.reverse

/-- the upper end of the one-key range: `cpIncr key` as is, `key ‖ 0x00` with the repair -/
def nextKey (fx : Fixes) (k : Bytes) : Bytes := if fx.succKey then k ++ [0] else cpIncr k

section
variable (H : Bytes → Bytes) (enc : Int → Int → Int → Bytes → Bytes → Bytes)

/-- `Node.pathToLeaf`: path and the leaf reached (key, value, version). -/
def pathToLeaf : Tree → Bytes → Path × (Bytes × Bytes × Int)
  | .leaf k v ver, _ => ([], (k, v, ver))
  | .inner h s ver nk l r, key =>
    if key < nk then
      let (p, lf) := pathToLeaf l key
      (⟨h, s, ver, [], Tree.hash H enc r⟩ :: p, lf)
    else
      let (p, lf) := pathToLeaf r key
      (⟨h, s, ver, Tree.hash H enc l, []⟩ :: p, lf)

/-- The mutable variables captured by the traversal callback of `getRangeProof`.
`pathCount = none` is Go's `-1`. -/
structure Trav where
  pathCount : Option Nat
  allPaths : List Path
  current : Path
  leaves : List PLeaf
  leafCount : Nat
  values : List Bytes
deriving Repr

/-- the path-tracking prologue of the callback (`if pathCount != -1 { … }`) -/
def trackPath (path : Path) (st : Trav) (height : Int) (lh rh : Bytes) : Trav :=
  match st.pathCount with
  | none => st
  | some c =>
    match path[c]? with
    | none => { st with pathCount := none }
    | some pn =>
      if pn.height ≠ height ∨ (pn.left ≠ [] ∧ pn.left ≠ lh) ∨ (pn.right ≠ [] ∧ pn.right ≠ rh) then
        { st with pathCount := none }
      else { st with pathCount := some (c + 1) }

/-- `traverseInRange(t, start, nil, ascending, !inclusive, …, pre-order, cb)` with the callback of
`getRangeProof` inlined.  Returns the new state and whether the callback asked to stop. -/
def traverse (fx : Fixes) (path : Path) (start : Bytes) (keyEnd : Bytes) (limit : Nat) : Tree → Trav → Trav × Bool
  | .leaf k v ver, st =>
    if start ≤ k then
      let st := trackPath path st 0 [] []
      let st := { st with allPaths := st.allPaths ++ [st.current], current := [],
                          leaves := st.leaves ++ [⟨k, H v, ver⟩], leafCount := st.leafCount + 1 }
      if limit > 0 ∧ limit ≤ st.leafCount then (st, true)
      else if keyEnd ≤ k then (st, true)
      else
        let st := { st with values := st.values ++ [v] }
        if keyEnd ≤ nextKey fx k then (st, true) else (st, false)
    else (st, false)
  | .inner h s ver nk l r, st =>
    let lh := Tree.hash H enc l
    let rh := Tree.hash H enc r
    let st := trackPath path st h lh rh
    let st := if st.pathCount.isNone then { st with current := st.current ++ [⟨h, s, ver, [], rh⟩] } else st
    let (st, stop) := if start < nk then traverse fx path start keyEnd limit l st else (st, false)
    if stop then (st, true) else traverse fx path start keyEnd limit r st

/-- `ImmutableTree.getRangeProof(keyStart, keyEnd, limit)` for non-nil bounds on a non-empty tree.
`none` = the Go code panics (`keyStart >= keyEnd`).  Returns the proof and `values`. -/
def getRangeProof (fx : Fixes) (t : Tree) (keyStart keyEnd : Bytes) (limit : Nat) : Option (RangeProof × List Bytes) :=
  if keyEnd ≤ keyStart then none else
  let (path, (lk, lv, lver)) := pathToLeaf H enc t keyStart
  let values : List Bytes := if keyStart ≤ lk ∧ lk < keyEnd then [lv] else []
  let leaves : List PLeaf := [⟨lk, H lv, lver⟩]
  if limit = 1 ∨ keyEnd ≤ nextKey fx lk then some (⟨path, [], leaves⟩, values)
  else
    let st0 : Trav := ⟨some 0, [], [], leaves, 1, values⟩
    let (st, _) := traverse H enc fx path (nextKey fx lk) keyEnd limit t st0
    some (⟨path, st.allPaths, st.leaves⟩, st.values)

/-- `ImmutableTree.GetWithProof(key)` on a non-empty tree: value (`none` = nil) and proof. -/
def getWithProof (fx : Fixes) (t : Tree) (key : Bytes) : Option (Option Bytes × RangeProof) :=
  match getRangeProof H enc fx t key (nextKey fx key) 2 with
  | none => none
  | some (proof, values) =>
    match values, proof.leaves with
    | v :: _, l :: _ => if l.key = key then some (some v, proof) else some (none, proof)
    | _, _ => some (none, proof)

/-- `GetWithProof` on a possibly empty tree (`none`; `t.root == nil` gives a nil proof): the range
check of `getRangeProof` comes before the emptiness test.  This is what `Store.Query` with
`prove=true` wraps into a `ValueOp` (value non-nil) or an `AbsenceOp`. -/
def queryProof (fx : Fixes) (t : Option Tree) (key : Bytes) : Option (Option Bytes × Option RangeProof) :=
  match t with
  | none => if nextKey fx key ≤ key then none else some (none, none)
  | some t => (getWithProof H enc fx t key).map fun r => (r.1, some r.2)

end

/-! ## Verifier -/

inductive Err where
  | invalidProof | invalidRoot | invalidInputs | other
deriving DecidableEq, Repr

section
variable (H : Bytes → Bytes) (enc : Int → Int → Int → Bytes → Bytes → Bytes)

/-- repair `strictNodes`: what `PathToLeaf.validate(leftmost)` accepts -/
def validPath (leftmost : Bool) (p : Path) : Bool :=
  p.all fun n => decide (0 < n.height) && ((n.left = []) != (n.right = [])) && (!leftmost || n.left = [])

/-- result of one `COMPUTEHASH` call together with the shared `leaves` / `innersq` it leaves behind -/
structure CH where
  hash : Bytes
  treeEnd : Bool
  done : Bool
  leaves : List PLeaf
  inners : List Path

/-- the `for len(path) > 0` loop of `COMPUTEHASH`; `rev` is the not yet visited part of the path,
leaf-most first; `rec` is the recursive `COMPUTEHASH` call. -/
def pathLoop (rec : Path → Bool → List PLeaf → List Path → Except Err CH) (hash : Bytes) (rightmost : Bool) :
    List PIN → List PLeaf → List Path → Except Err CH
  | [], leaves, inners => .ok ⟨hash, false, false, leaves, inners⟩
  | lpath :: rrev, leaves, inners =>
    if lpath.right = [] then pathLoop rec hash rightmost rrev leaves inners
    else
      match inners with
      | [] => .error .other                                -- `innersq[0]` out of range (unreachable)
      | ins :: rinners =>
        match rec ins (rightmost && isRightmost rrev.reverse) leaves rinners with
        | .error _ => .error .invalidRoot
        | .ok r =>
          if r.hash ≠ lpath.right then .error .invalidRoot
          else if r.done then .ok ⟨hash, r.treeEnd, true, r.leaves, r.inners⟩
          else pathLoop rec hash rightmost rrev r.leaves r.inners

/-- `COMPUTEHASH(path, rightmost)`; `fuel` bounds the recursion depth (one leaf is consumed per call,
so `len(leaves)` is enough). -/
def computeHash : Nat → Path → Bool → List PLeaf → List Path → Except Err CH
  | 0, _, _, _, _ => .error .other
  | fuel + 1, path, rightmost, leaves, inners =>
    match leaves with
    | [] => .error .other                                  -- `leaves[0]` out of range (unreachable)
    | nleaf :: rleaves =>
      let hash := pathLeafHash H enc path nleaf
      if rleaves = [] then .ok ⟨hash, rightmost && isRightmost path, true, [], inners⟩
      else pathLoop (computeHash fuel) hash rightmost path.reverse rleaves inners

/-- `RangeProof._computeRootHash()`: root hash and `treeEnd`. -/
def computeRootHash (fx : Fixes) (p : RangeProof) : Except Err (Bytes × Bool) :=
  if p.leaves = [] then .error .invalidProof
  else if p.innerNodes.length + 1 ≠ p.leaves.length then .error .invalidProof
  else if fx.strictNodes ∧ ¬ (validPath false p.leftPath ∧ p.innerNodes.all (validPath true)) then .error .invalidProof
  else
    match computeHash H enc (p.leaves.length + 1) p.leftPath true p.leaves p.innerNodes with
    | .error e => .error e
    | .ok r => if r.done then .ok (r.hash, r.treeEnd) else .error .invalidProof

/-- `sort.Search(len(leaves), func(i) bool { return bytes.Compare(key, leaves[i].Key) <= 0 })` -/
def searchLeaves (leaves : List PLeaf) (key : Bytes) : Nat → Nat → Nat → Nat
  | 0, i, _ => i
  | fuel + 1, i, j =>
    if i < j then
      let h := (i + j) / 2
      if key ≤ (leaves.getD h ⟨[], [], 0⟩).key then searchLeaves leaves key fuel i h
      else searchLeaves leaves key fuel (h + 1) j
    else i

/-- `RangeProof.VerifyItem(key, value)` after a successful `Verify` -/
def verifyItem (p : RangeProof) (key value : Bytes) : Bool :=
  let i := searchLeaves p.leaves key p.leaves.length 0 p.leaves.length
  match p.leaves[i]? with
  | none => false
  | some l => l.key = key && l.valueHash = H value

/-- the `for i := 1; i < len(proof.Leaves); i++` loop of `VerifyAbsence`:
`some true` = absence proved, `some false` = disproved, `none` = fell through -/
def absenceLoop (key : Bytes) : List PLeaf → Option Bool
  | [] => none
  | l :: rest => if key < l.key then some true else if key = l.key then some false else absenceLoop key rest

/-- `RangeProof.VerifyAbsence(key)` after a successful `Verify` (`treeEnd` memoised by it) -/
def verifyAbsence (p : RangeProof) (treeEnd : Bool) (key : Bytes) : Bool :=
  match p.leaves with
  | [] => false
  | l0 :: rest =>
    if key < l0.key then isLeftmost p.leftPath
    else if key = l0.key then false
    else if p.leftPath = [] then true
    else if isRightmost p.leftPath then true
    else match absenceLoop key rest with
      | some b => b
      | none => treeEnd

/-- `ValueOp.Run(args)`: `Proof == nil` makes `Verify` fail. -/
def valueOpRun (fx : Fixes) (proof : Option RangeProof) (key : Bytes) (args : List Bytes) : Except Err (List Bytes) :=
  match args with
  | [value] =>
    match proof with
    | none => .error .invalidProof
    | some p =>
      match computeRootHash H enc fx p with
      | .error e => .error e
      | .ok (root, _) => if verifyItem H p key value then .ok [root] else .error .invalidProof
  | _ => .error .other

/-- `AbsenceOp.Run(args)`: a nil proof (empty tree) yields the nil root. -/
def absenceOpRun (fx : Fixes) (proof : Option RangeProof) (key : Bytes) (args : List Bytes) : Except Err (List Bytes) :=
  match args with
  | [] =>
    match proof with
    | none => .ok [[]]
    | some p =>
      match computeRootHash H enc fx p with
      | .error e => .error e
      | .ok (root, treeEnd) => if verifyAbsence p treeEnd key then .ok [root] else .error .other
  | _ => .error .other

end

/-! ## Multistore -/

/-- `StoreInfo` (name, `Core.CommitID.Version`, `Core.CommitID.Hash`) -/
structure StoreInfo where
  name : Bytes
  version : Int
  hash : Bytes
deriving DecidableEq, Repr

section
variable (H : Bytes → Bytes) (encKV : Bytes → Bytes → Bytes)

/-- `getSplitPoint`: the largest power of two strictly below `n` (for `n ≥ 2`) -/
def splitPointAux : Nat → Nat → Nat → Nat
  | 0, k, _ => k
  | fuel + 1, k, n => if 2 * k < n then splitPointAux fuel (2 * k) n else k

def splitPoint (n : Nat) : Nat := splitPointAux n 1 n

/-- `SimpleHashFromByteSlices` -/
def simpleHash : Nat → List Bytes → Bytes
  | 0, _ => []
  | _, [] => []
  | _, [x] => H (0 :: x)
  | fuel + 1, items =>
    let k := splitPoint items.length
    H (1 :: (simpleHash fuel (items.take k) ++ simpleHash fuel (items.drop k)))

/-- insertion of a pair into a list sorted by key; an equal key is overwritten (Go map assignment) -/
def mapInsert (k v : Bytes) : List (Bytes × Bytes) → List (Bytes × Bytes)
  | [] => [(k, v)]
  | (k', v') :: r => if k < k' then (k, v) :: (k', v') :: r else if k = k' then (k, v) :: r else (k', v') :: mapInsert k v r

/-- `m := map[string][]byte{}; for _, si := range infos { m[si.Name] = si.Hash() }`, then sorted by key:
a later entry with the same name replaces an earlier one. -/
def infosMap (infos : List StoreInfo) : List (Bytes × Bytes) :=
  infos.foldl (fun m si => mapInsert si.name (H si.hash) m) []

/-- `CommitInfo.Hash()` = `merkle.SimpleHashFromMap(m)`: each value is hashed once more, pairs are
sorted by key, encoded by `KVPair.Bytes` and merkle-ised. -/
def commitHash (infos : List StoreInfo) : Bytes :=
  let kvs := (infosMap H infos).map fun p => encKV p.1 (H p.2)
  simpleHash H kvs.length kvs

/-- `MultiStoreProofOp.Run(args)`; with the repair, duplicate names are rejected first. -/
def multiStoreRun (fx : Fixes) (infos : List StoreInfo) (key : Bytes) (args : List Bytes) : Except Err (List Bytes) :=
  match args with
  | [value] =>
    if fx.dupNames ∧ ¬ (infos.map (·.name)).Nodup then .error .invalidProof
    else
      match infos.find? (fun si => si.name = key) with
      | some si => if value = si.hash then .ok [commitHash H encKV infos] else .error .other
      | none => .error .other
  | _ => .error .other

end

/-! ## ProofRuntime -/

/-- a decoded proof operator -/
inductive Op where
  | value (key : Bytes) (proof : Option RangeProof)
  | absence (key : Bytes) (proof : Option RangeProof)
  | multi (key : Bytes) (infos : List StoreInfo)
deriving Repr

def Op.key : Op → Bytes
  | .value k _ => k | .absence k _ => k | .multi k _ => k

section
variable (H : Bytes → Bytes) (enc : Int → Int → Int → Bytes → Bytes → Bytes) (encKV : Bytes → Bytes → Bytes)

def Op.run (fx : Fixes) : Op → List Bytes → Except Err (List Bytes)
  | .value k p, args => valueOpRun H enc fx p k args
  | .absence k p, args => absenceOpRun H enc fx p k args
  | .multi k infos, args => multiStoreRun H encKV fx infos k args

/-- `ProofOperators.Verify(root, keypath, args)`; `keys` are the key-path parts, last = innermost. -/
def verifyOps (fx : Fixes) : List Op → List Bytes → List Bytes → Except Err (List Bytes × List Bytes)
  | [], keys, args => .ok (keys, args)
  | op :: rest, keys, args =>
    let step (keys : List Bytes) :=
      match Op.run H enc encKV fx op args with
      | .error e => .error e
      | .ok args' => verifyOps fx rest keys args'
    if op.key ≠ [] then
      match keys.reverse with
      | [] => .error .other
      | last :: revInit => if last ≠ op.key then .error .other else step revInit.reverse
    else step keys

/-- `ProofRuntime.VerifyValue / VerifyAbsence` (`args = [value]` / `[]`): accept or reject.
With no operator at all Go indexes `args[0]` of the untouched argument list. -/
def verify (fx : Fixes) (ops : List Op) (root : Bytes) (keys : List Bytes) (args : List Bytes) : Option Bool :=
  match verifyOps H enc encKV fx ops keys args with
  | .error _ => some false
  | .ok (keys', args') =>
    match args' with
    | [] => none                                            -- `args[0]`: index out of range, panic
    | a :: _ => some (a = root && keys' = [])

end

end IavlProof
