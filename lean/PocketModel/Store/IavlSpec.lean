import PocketModel.Store.Iavl
/-!
# Specification side of C03/C09: the per-version map model and the tree invariant

* `KVs` — a finite map as a strictly ascending association list, with `insert`, `erase`, `lookup`,
  `rank` (number of keys below a key), positional access and `range`.
* `Spec` — one map for the working state, one per retained saved version.  This is what the
  property text calls "a per-version map model"; it is executable and the driver runs it next to
  the implementation.
* `Inv` — the structural invariant of an IAVL node (search-tree order, inner key = least key of the
  right subtree, AVL balance, stored size and height correct).
-/
namespace Iavl

/-- Association list, intended strictly ascending in the key. -/
abbrev KVs := List (Bytes × Bytes)

namespace KVs

/-- Strictly ascending keys (no duplicates). -/
def Sorted (m : KVs) : Prop := m.Pairwise (fun a b => a.1 < b.1)

/-- Decidable version of `Sorted` for the driver. -/
def isSorted : KVs → Bool
  | [] => true
  | [_] => true
  | a :: b :: rest => decide (a.1 < b.1) && isSorted (b :: rest)

/-- Map update on a sorted list: the entries below `k`, then `(k, v)`, then the entries above `k`. -/
def insert (k v : Bytes) (m : KVs) : KVs :=
  m.filter (fun p => decide (p.1 < k)) ++ (k, v) :: m.filter (fun p => decide (k < p.1))

/-- The same update written as the usual recursive insertion into a sorted list
(`Proofs.Store.IavlSpec.insert_eq_insertRec`: equal on sorted lists). -/
def insertRec (k v : Bytes) : KVs → KVs
  | [] => [(k, v)]
  | (k', v') :: rest =>
    if k < k' then (k, v) :: (k', v') :: rest
    else if k = k' then (k, v) :: rest
    else (k', v') :: insertRec k v rest

/-- Map deletion. -/
def erase (k : Bytes) (m : KVs) : KVs := m.filter (fun p => p.1 != k)

/-- Map lookup. -/
def lookup (k : Bytes) (m : KVs) : Option Bytes := (m.find? (fun p => p.1 == k)).map (·.2)

/-- Membership of a key. -/
def contains (k : Bytes) (m : KVs) : Bool := m.any (fun p => p.1 == k)

/-- Number of keys strictly below `k` (the index of `k` if present, its insertion point if not). -/
def rank (k : Bytes) (m : KVs) : Nat := m.countP (fun p => decide (p.1 < k))

/-- Entry at a (possibly negative) position. -/
def atIndex (m : KVs) (i : Int) : Option (Bytes × Bytes) :=
  if i < 0 then none else m[i.toNat]?

/-- `start ≤ key` (or no start) and `key < end` (`≤` when inclusive; or no end). -/
def inRange (start end_ : Option Bytes) (inclusive : Bool) (key : Bytes) : Bool :=
  Node.startOrAfter start key && Node.beforeEnd end_ inclusive key

/-- Entries with key in range, ascending or descending. -/
def range (start end_ : Option Bytes) (ascending inclusive : Bool) (m : KVs) : KVs :=
  let f := m.filter (fun p => inRange start end_ inclusive p.1)
  if ascending then f else f.reverse

/-- The prefix of a list that a stopping callback gets to see (`cb … = true` = stop, the element
it stopped on included) and whether it stopped. -/
def takeUntil (cb : Bytes → Bytes → Bool) : KVs → KVs × Bool
  | [] => ([], false)
  | p :: rest =>
    if cb p.1 p.2 then ([p], true)
    else ((p :: (takeUntil cb rest).1), (takeUntil cb rest).2)

/-- What each read returns on a map. -/
def read (m : KVs) : Read → ReadResult
  | .get k => .get (rank k m) (lookup k m)
  | .has k => .has (contains k m)
  | .byIndex i => .byIndex (atIndex m i)
  | .range s e asc incl => .range (range s e asc incl m)

end KVs

/-- Contents of an optional root. -/
def contents : Option Node → KVs
  | none => []
  | some n => n.toList

/-- The per-version map model. -/
structure Spec where
  cur : KVs := []
  version : Nat := 0
  last : KVs := []
  saved : List (Nat × KVs) := []
  deriving Repr, DecidableEq

namespace Spec

def empty : Spec := {}

def versionExists (s : Spec) (v : Nat) : Bool := s.saved.any (·.1 == v)

def getVersion (s : Spec) (v : Nat) : Option KVs := (s.saved.find? (·.1 == v)).map (·.2)

/-- One operation on the map model.  `save` records the current map under the next version
number; `delete v` forgets a saved version other than the latest; `rollback` returns to the last
saved map. -/
def step (s : Spec) : Tree.Op → Spec
  | .set k v => { s with cur := KVs.insert k v s.cur }
  | .remove k => { s with cur := KVs.erase k s.cur }
  | .save =>
    let v := s.version + 1
    if s.versionExists v then s
    else { cur := s.cur, version := v, last := s.cur, saved := (v, s.cur) :: s.saved }
  | .delete v =>
    if v = 0 ∨ v = s.version ∨ !s.versionExists v then s
    else { s with saved := s.saved.filter (·.1 != v) }
  | .rollback => if s.version > 0 then { s with cur := s.last } else { s with cur := [] }

def run (ops : List Tree.Op) : Spec := ops.foldl step empty

/-- A read on the working map or on a saved version's map. -/
def read (s : Spec) : Target → Read → Option ReadResult
  | .working, r => some (KVs.read s.cur r)
  | .version v, r => (s.getVersion v).map (fun m => KVs.read m r)

end Spec

/-- Abstraction of a model tree: every root replaced by its contents. -/
def Tree.abs (t : Tree) : Spec :=
  { cur := contents t.root, version := t.version, last := contents t.lastSaved,
    saved := t.versions.map (fun p => (p.1, contents p.2)) }

/-! ## Invariant -/

namespace Node

/-- Search-tree order: keys of the left subtree are below the inner key, keys of the right subtree
are not below it. -/
def BST : Node → Prop
  | leaf .. => True
  | inner k _ _ l r _ => BST l ∧ BST r ∧ (∀ p ∈ toList l, p.1 < k) ∧ (∀ p ∈ toList r, k ≤ p.1)

/-- Every inner key is the least key of its right subtree. -/
def KeyOK : Node → Prop
  | leaf .. => True
  | inner k _ _ l r _ => KeyOK l ∧ KeyOK r ∧ k = minKey r

/-- AVL balance on the stored heights: |height l − height r| ≤ 1 everywhere. -/
def Balanced : Node → Prop
  | leaf .. => True
  | inner _ _ _ l r _ => Balanced l ∧ Balanced r ∧ l.height ≤ r.height + 1 ∧ r.height ≤ l.height + 1

/-- Stored sizes are the numbers of leaves. -/
def SizeOK : Node → Prop
  | leaf .. => True
  | inner _ _ s l r _ => SizeOK l ∧ SizeOK r ∧ s = l.size + r.size

/-- Stored heights are 1 + the larger child height. -/
def HeightOK : Node → Prop
  | leaf .. => True
  | inner _ h _ l r _ => HeightOK l ∧ HeightOK r ∧ h = max l.height r.height + 1

/-- Fibonacci numbers `0, 1, 1, 2, 3, 5, …` (computed in linear time): a tree of height `h`
satisfying the invariant has at least `fib (h + 2)` leaves. -/
def fibPair : Nat → Nat × Nat
  | 0 => (0, 1)
  | n + 1 => ((fibPair n).2, (fibPair n).1 + (fibPair n).2)

/-- `fib n`. -/
def fib (n : Nat) : Nat := (fibPair n).1

/-- The IAVL node invariant. -/
def Inv (t : Node) : Prop := BST t ∧ KeyOK t ∧ Balanced t ∧ SizeOK t ∧ HeightOK t

end Node

/-- Invariant of an optional root (`nil` is fine). -/
def RootInv : Option Node → Prop
  | none => True
  | some n => n.Inv

/-- Decidable monitor for an optional root. -/
def checkRoot : Option Node → Bool
  | none => true
  | some n => n.checkInv

end Iavl
