import PocketModel.Store.KV
/-!
# Prefix store (`store/prefix/store.go`, `store/types/utils.go:PrefixEndBytes`)

A prefix store has no state of its own: it is a parent store plus a fixed prefix.  Every key is
prefixed on the way down (`Store.key`), iterator bounds are translated (`Store.Iterator`), and the
`prefixIterator` yields the parent's items while they carry the prefix, with the prefix stripped.

Core Lean only.  Lemmas: `Proofs/Store/Prefix.lean`; theorems: `Props/C02.lean`.
-/
namespace Prefix

/-- The loop of `PrefixEndBytes`, on the *reversed* byte string (the loop looks at the last byte):
a last byte other than `0xFF` is incremented and the loop ends; a trailing `0xFF` is dropped; when
nothing is left the result is nil. -/
def prefixEndRev : List UInt8 → Option (List UInt8)
  | [] => none
  | x :: r => if x ≠ 255 then some ((x + 1) :: r) else prefixEndRev r

/-- `types.PrefixEndBytes(prefix)` (= `cpIncr`): the exclusive upper bound of the keys that start
with `prefix`; `none` (Go nil = unbounded) for the empty and for all-`0xFF` prefixes. -/
def prefixEnd (p : Bytes) : Option Bytes := (prefixEndRev p.reverse).map List.reverse

/-- `Store.key` / `cloneAppend(prefix, key)`. -/
def pkey (p k : Bytes) : Bytes := p ++ k

/-- Bounds handed to the parent by `Store.Iterator` / `Store.ReverseIterator`:
`newstart = cloneAppend(prefix, start)` (a nil start appends nothing) and
`newend = cpIncr(prefix)` when `end == nil`, else `cloneAppend(prefix, end)`. -/
def iterBounds (p : Bytes) (s e : Option Bytes) : Option Bytes × Option Bytes :=
  (some (p ++ s.getD []), match e with | none => prefixEnd p | some e => some (p ++ e))

/-- `bytes.HasPrefix(key, prefix)`. -/
def hasPrefix (p k : Bytes) : Bool := p.isPrefixOf k

/-- `stripPrefix(key, prefix)` (only ever applied to keys that carry the prefix). -/
def strip (p k : Bytes) : Bytes := k.drop p.length

/-- `prefixIterator` drained: `valid` is computed at construction and after every `Next` as
"parent valid and parent key has the prefix"; once false it stays false.  So the iterator yields the
parent's items up to (excluding) the first one without the prefix, keys stripped. -/
def prefixIter (p : Bytes) (parent : List (Bytes × Bytes)) : List (Bytes × Bytes) :=
  (parent.takeWhile (fun kv => hasPrefix p kv.1)).map (fun kv => (strip p kv.1, kv.2))

/-- Specification: what a store with contents `m` looks like through the prefix `p` — the bindings
whose key starts with `p`, with `p` removed (ascending order is preserved). -/
def view (p : Bytes) (m : KV) : KV :=
  (m.filter (fun kv => hasPrefix p kv.1)).map (fun kv => (strip p kv.1, kv.2))

/-- `prefix.Store` over a parent implementing `KVOps`; the state is the parent's state and the
(immutable) prefix. -/
def ops {σ : Type} (O : KVOps σ) : KVOps (σ × Bytes) where
  get s k := let r := O.get s.1 (pkey s.2 k); ((r.1, s.2), r.2)
  has s k := let r := O.has s.1 (pkey s.2 k); ((r.1, s.2), r.2)
  set s k v := (O.set s.1 (pkey s.2 k) v, s.2)
  del s k := (O.del s.1 (pkey s.2 k), s.2)
  iter s asc st e :=
    let b := iterBounds s.2 st e
    let r := O.iter s.1 asc b.1 b.2
    ((r.1, s.2), prefixIter s.2 r.2)

end Prefix
