import PocketModel.Basic.Proto
import PocketModel.Store.IavlProof
import PocketModel.Store.Sha256
import PocketModel.Codec.Amino
import Std.Data.HashMap
/-!
Driver logic for C05 (compiled once by `lake build`; `Driver/C05.lean` only calls `Proto.run`).

The model is parametric in the hash function.  The driver instantiates it with `Hq`: real SHA-256
(computed in Lean) on every preimage that occurs in a committed tree / commit info or that the harness
announces with a `fact` line, and an injective stand-in (`0xEE ‖ preimage`, never a 32-byte string) on
every other preimage.  Verification only ever compares hashes for equality, so the verdicts are those
of SHA-256 unless SHA-256 collides on the preimages at hand.

Verdicts: `DIFF` when the model prover/verifier (with the repairs named by the `mode` line) disagrees
with the real code; `PROPFAIL` when the real code's own answer violates the specification:
an honest proof is rejected / the query panics (`proof-incomplete-*`), an accepted proof states
something false of the committed tree (`proof-forged-*`), an altered proof is still accepted
(`proof-malleable-*`).
-/
open IavlProof

namespace C05Driver

abbrev Table := Std.HashMap Bytes Bytes

def Hq (tb : Table) (x : Bytes) : Bytes :=
  match tb.get? x with
  | some d => d
  | none => 0xEE :: x

/-- amino layout of a hashed node -/
def encA (h s v : Int) (a b : Bytes) : Bytes :=
  Amino.encodeInt8 h ++ Amino.encodeVarint s ++ Amino.encodeVarint v ++ Amino.encodeByteSlice a ++ Amino.encodeByteSlice b

def encKVA (k v : Bytes) : Bytes := Amino.encodeByteSlice k ++ Amino.encodeByteSlice v

def learn (tb : Table) (x : Bytes) : Table × Bytes :=
  match tb.get? x with
  | some d => (tb, d)
  | none => let d := Sha256.sum x; (tb.insert x d, d)

/-- real hashes of every node and value of a tree -/
def learnTree (tb : Table) : Tree → Table × Bytes
  | .leaf k v ver =>
    let (tb, vh) := learn tb v
    learn tb (encA 0 1 ver k vh)
  | .inner h s ver _ l r =>
    let (tb, lh) := learnTree tb l
    let (tb, rh) := learnTree tb r
    learn tb (encA h s ver lh rh)

def learnSimple (tb : Table) : Nat → List Bytes → Table × Bytes
  | 0, _ => (tb, [])
  | _, [] => (tb, [])
  | _, [x] => learn tb (0 :: x)
  | fuel + 1, items =>
    let k := splitPoint items.length
    let (tb, l) := learnSimple tb fuel (items.take k)
    let (tb, r) := learnSimple tb fuel (items.drop k)
    learn tb (1 :: (l ++ r))

/-- real hashes behind `CommitInfo.Hash()` -/
def learnCommit (tb : Table) (infos : List StoreInfo) : Table × Bytes :=
  let tb := infos.foldl (fun tb si => let (tb, h1) := learn tb si.hash; (learn tb h1).1) tb
  let kvs := (infosMap (Hq tb) infos).map fun p => encKVA p.1 (Hq tb p.2)
  learnSimple tb kvs.length kvs

/-! ### parsing -/

def pBytes (s : String) : Option Bytes := Bytes.parse s

def pPIN (s : String) : Option PIN :=
  match s.splitOn "." with
  | [h, sz, v, l, r] => do
    pure ⟨← h.toInt?, ← sz.toInt?, ← v.toInt?, ← pBytes l, ← pBytes r⟩
  | _ => none

def pPath (s : String) : Option Path :=
  if s = "_" then some [] else (s.splitOn ",").mapM pPIN

def pLeaf (s : String) : Option PLeaf :=
  match s.splitOn "." with
  | [k, vh, v] => do pure ⟨← pBytes k, ← pBytes vh, ← v.toInt?⟩
  | _ => none

def pRange (s : String) : Option (Option RangeProof) :=
  if s = "~" then some none else
  match s.splitOn "|" with
  | [lp, ins, lv] => do
    let lp ← pPath lp
    let ins ← if ins = "!" then some [] else (ins.splitOn "/").mapM pPath
    let lv ← if lv = "!" then some [] else (lv.splitOn ",").mapM pLeaf
    pure (some ⟨lp, ins, lv⟩)
  | _ => none

def pInfo (s : String) : Option StoreInfo :=
  match s.splitOn "." with
  | [n, v, h] => do pure ⟨← pBytes n, ← v.toInt?, ← pBytes h⟩
  | _ => none

def pInfos (s : String) : Option (List StoreInfo) :=
  if s = "!" then some [] else (s.splitOn ",").mapM pInfo

def pOp (s : String) : Option Op :=
  match s.splitOn ":" with
  | [t, k, body] => do
    let k ← pBytes k
    if t = "v" then pure (.value k (← pRange body))
    else if t = "a" then pure (.absence k (← pRange body))
    else if t = "m" then pure (.multi k (← pInfos body))
    else none
  | _ => none

def pOps (s : String) : Option (List Op) :=
  if s = "!" then some [] else (s.splitOn "+").mapM pOp

/-- pre-order node list → tree -/
partial def buildTree : List String → Option (Tree × List String)
  | [] => none
  | n :: rest =>
    match n.splitOn "." with
    | ["L", k, v, ver] => do pure (.leaf (← pBytes k) (← pBytes v) (← ver.toInt?), rest)
    | ["I", h, sz, ver, k] => do
      let (l, rest) ← buildTree rest
      let (r, rest) ← buildTree rest
      pure (.inner (← h.toInt?) (← sz.toInt?) (← ver.toInt?) (← pBytes k) l r, rest)
    | _ => none

/-! ### rendering (to compare the model prover with the real one) -/

def rB (b : Bytes) : String := Bytes.render b
def rPath (p : Path) : String :=
  if p.isEmpty then "_" else ",".intercalate (p.map fun n => s!"{n.height}.{n.size}.{n.version}.{rB n.left}.{rB n.right}")
def rRange (p : RangeProof) : String :=
  let ins := if p.innerNodes.isEmpty then "!" else "/".intercalate (p.innerNodes.map rPath)
  let lv := if p.leaves.isEmpty then "!" else ",".intercalate (p.leaves.map fun l => s!"{rB l.key}.{rB l.valueHash}.{l.version}")
  s!"{rPath p.leftPath}|{ins}|{lv}"
def rInfos (l : List StoreInfo) : String :=
  if l.isEmpty then "!" else ",".intercalate (l.map fun i => s!"{rB i.name}.{i.version}.{rB i.hash}")

/-! ### state -/

structure St where
  fx : Fixes
  tb : Table
  trees : List ((Bytes × Int) × Option Tree)      -- (store, version) ↦ tree (none = empty)
  commits : List (Int × List StoreInfo × Bytes)   -- version ↦ infos, app hash

def Tree.leafList (t : Tree) : List (Bytes × Bytes) := t.leaves.map fun e => (e.1, e.2.1)

def lookupTree (st : St) (store : Bytes) (v : Int) : Option (Option Tree) :=
  (st.trees.find? fun e => e.1 = (store, v)).map (·.2)

/-- the committed value of `key` in `store` at the version whose app hash is `root`:
`none` = no such commit or tree unknown, `some none` = absent, `some (some v)` = present -/
def committed (st : St) (root store key : Bytes) : Option (Option Bytes) :=
  match st.commits.find? fun c => c.2.2 = root with
  | none => none
  | some (v, infos, _) =>
    match infos.find? fun si => si.name = store with
    | none => some none         -- no such store in this commit: nothing is stored there
    | some si =>
      match lookupTree st store si.version with
      | some (some t) => some ((Tree.leafList t).lookup key)
      | some none => some none
      | none => if v = si.version then none else none

def labelClass (label : String) : String :=
  let l := if label.startsWith "v." || label.startsWith "a." then (label.drop 2).toString else label
  let l := if l.startsWith "forged." then (l.drop 7).toString else l
  let l := l.replace ".fill1." ".fill."
  let l := l.replace ".version.+1" ".version" |>.replace ".version.-1" ".version"
  l

def step (st : St) (pre post : List String) : St × Verdict :=
  let line := " ".intercalate pre
  let H := Hq st.tb
  match pre with
  | ["mode", strict, dup, succ] =>
    -- the probe's findings select the model; when the check states which repairs it expects, a code
    -- base that lacks one of them is a reported regression
    ({ st with fx := ⟨strict = "strict=1", dup = "dup=1", succ = "succ=1"⟩ },
     if post = ["-"] ∨ post = [strict, dup, succ] then .ok
     else .propfail "proof-repair-regressed" s!"{line} expected {post}")
  | ["open", _] => ({ st with trees := [], commits := [] }, .ok)
  | ["end"] => ({ st with trees := [], commits := [], tb := {} }, .ok)
  | ["fact", x] =>
    match pBytes x, post with
    | some x, [d] =>
      let (tb, d') := learn st.tb x
      ({ st with tb := tb }, if rB d' = d then .ok else .diff s!"sha256 model={rB d'} impl={d}")
    | _, _ => (st, .bad "fact")
  | ["commit", v, infos] =>
    match v.toInt?, pInfos infos, post with
    | some v, some infos, [app] =>
      let (tb, h) := learnCommit st.tb infos
      let st := { st with tb := tb, commits := (v, infos, h) :: st.commits }
      (st, if rB h = app then .ok else .diff s!"commit hash model={rB h} impl={app}")
    | _, _, _ => (st, .bad "commit")
  | ["tree", store, v, nodes] =>
    match pBytes store, v.toInt?, post with
    | some store, some v, [root] =>
      if nodes = "!" then
        ({ st with trees := ((store, v), none) :: st.trees }, if root = "-" then .ok else .diff "empty tree with a root hash")
      else
        match buildTree (nodes.splitOn ",") with
        | some (t, []) =>
          let (tb, h) := learnTree st.tb t
          let st := { st with tb := tb, trees := ((store, v), some t) :: st.trees }
          -- the root must be the one committed for this store at this version
          let okc := st.commits.any fun c => c.2.1.any fun si => si.name = store ∧ si.version = v ∧ si.hash = h
          (st, if rB h ≠ root then .diff s!"tree hash model={rB h} impl={root}"
               else if !okc then .diff "tree root is not in any commit info" else .ok)
        | _ => (st, .bad "tree")
    | _, _, _ => (st, .bad "tree")
  | ["pending", _, _, _] => (st, .ok)     -- an uncommitted write to the working tree: no committed state changes
  | [qk, store, v, key] =>
    -- `query`: rootmulti.Store.Query; `squery`: iavl.Store.Query directly (no multistore op appended)
    if qk ≠ "query" ∧ qk ≠ "squery" then (st, .bad "line") else
    match pBytes store, v.toInt?, pBytes key, post with
    | some store, some v, some key, [val, proof] =>
      match st.commits.find? (fun c => c.1 = v) with
      | none => (st, .bad "query at unknown version")
      | some (_, infos, _) =>
        let sv := (infos.find? fun si => si.name = store).map (·.version) |>.getD v
        match lookupTree st store sv with
        | none => (st, .bad "query on unknown tree")
        | some ot =>
          -- model of Store.Query(prove=true); rootmulti.Query appends the multistore op, whose
          -- StoreInfos come in the order in which Go's map iteration committed the stores
          let m : Option (String × String) :=
            match queryProof H encA st.fx ot key with
            | none => none
            | some (some value, some p) => some (rB value, s!"v:{rB key}:{rRange p}")
            | some (some value, none) => some (rB value, s!"v:{rB key}:~")
            | some (none, some p) => some ("~", s!"a:{rB key}:{rRange p}")
            | some (none, none) => some ("~", s!"a:{rB key}:~")
          let stored : Option Bytes := match ot with | none => none | some t => (Tree.leafList t).lookup key
          let msOk : Bool :=
            match proof.splitOn "+" with
            | [_] => qk = "squery"
            | [_, p2] =>
              qk = "query" &&
              match pOp p2 with
              | some (.multi k is) => k = store && is.length = infos.length && is.all (infos.contains ·) && infos.all (is.contains ·)
              | _ => false
            | _ => false
          let v : Verdict :=
            match m with
            | none =>
              if val = "PANIC" then .propfail "proof-incomplete-query-panics" line
              else .diff s!"model: getRangeProof panics; impl={val}"
            | some (mv, mp) =>
              if val = "PANIC" ∨ val = "ERR" then .propfail "proof-incomplete-query-fails-unmodelled" line
              else if val ≠ Bytes.renderOpt stored then .propfail "query-wrong-value" s!"{line} impl={val}"
              else if mv ≠ val ∨ (proof.splitOn "+").head? ≠ some mp then .diff s!"model value={mv} proof={mp}"
              else if !msOk then .diff "multistore op is not (store name, the committed StoreInfos)"
              else .ok
          (st, v)
    | _, _, _, _ => (st, .bad "query")
  | ["verify", label, kind, root, store, key, value, proof] =>
    match pBytes root, pBytes store, pBytes key, Bytes.parseOpt value, pOps proof, post with
    | some root, some store, some key, some value, some ops, [verdict] =>
      let args : List Bytes := if kind = "a" then [] else [value.getD []]
      let mv := match verify H encA encKVA st.fx ops root [store, key] args with
        | some true => "accept" | some false => "reject" | none => "panic"
      let cls := labelClass label
      let v : Verdict :=
        if verdict = "accept" then
          -- what the accepted proof states, against the committed tree
          let truth : Option Bool :=
            (committed st root store key).map fun c =>
              if kind = "a" then c.isNone else c = some (value.getD [])
          match truth with
          | none => .propfail s!"proof-forged-root-{cls}" line
          | some false =>
            if label.startsWith "forged.empty-store." then .propfail "forged-proof-accepted-empty-store" line
            else if mv = verdict then .propfail s!"proof-forged-{cls}" line else .propfail s!"proof-forged-unmodelled-{cls}" line
          | some true =>
            -- an honest proof, or a valid proof re-used for another key about which it is also right
            if label = "honest" ∨ label = "altered-key" then (if mv = verdict then .ok else .diff s!"model={mv} impl={verdict}")
            else if mv = verdict then .propfail s!"proof-malleable-{cls}" line
            else .propfail s!"proof-malleable-unmodelled-{cls}" line
        else if label = "honest" then
          if mv = verdict then .propfail (if kind = "a" then "proof-incomplete-absence" else "proof-incomplete-value") line
          else .propfail s!"proof-incomplete-unmodelled-{kind}" s!"{line} model={mv}"
        else if mv = verdict then .ok
        else .diff s!"model={mv} impl={verdict}"
      (st, v)
    | _, _, _, _, _, _ => (st, .bad "verify")
  | _ => (st, .bad "line")


def init : St := ⟨Fixes.none, {}, [], []⟩

end C05Driver
