import PocketModel.Store.KV
/-!
# Cache-wrapped KV store (`store/cachekv/{store.go, memiterator.go, mergeiterator.go}`)

Executable model of `cachekv.Store` *as coded*, over an arbitrary parent `O : KVOps σ`:

* `CStore` — the three pieces of state: `cache` (Go `map[string]*cValue`, kept as an ascending
  association list: a canonical form of a map), `unsorted` (`unsortedCache`, a key set) and
  `sorted` (`sortedCache`, the `container/list` of `kv.Pair`, ascending);
* `get` (fills a *clean* entry from the parent), `set`, `del`, `has`, `setCacheValue`;
* `dirtyItems` (moves the in-domain keys of `unsorted` into `sorted` with the three-way merge of
  the Go loop, replace on equal keys), `memItems`/`memIter` (`newMemIterator`: the first
  contiguous in-domain run of `sorted`);
* the merge iterator: `skipCacheDeletes`, `skip` (= `skipUntilExistsOrInvalid`), `valid`, `cur`
  (`Key`/`Value`), `next`, and `drain` (the caller's `for ; it.Valid(); it.Next()` loop);
* `write` (sorted dirty keys: deleted → parent `Delete`; nil value → skip; else parent `Set`; then
  the cache is cleared).

Iterators are modelled by their drained content at creation: `memIterator.items` is a private
slice of immutable pairs and the parent iterator is itself a value fixed at creation, so later
`Set/Delete/Write` calls on the store cannot change what an already open iterator yields
(checked against the real code by the harness: iterators are opened, writes issued, then drained).

Core Lean only.  Lemmas: `Proofs/Store/CacheKV.lean`; theorems: `Props/C01.lean`.
-/
namespace CacheKV

/-- `cValue`: `value = none` is Go `nil`. -/
structure CValue where
  value : Option Bytes
  deleted : Bool
  dirty : Bool
  deriving Repr, DecidableEq

/-- `cachekv.Store` minus the parent and the mutex. -/
structure CStore where
  /-- `cache map[string]*cValue` -/
  cache : Assoc CValue := []
  /-- `unsortedCache map[string]struct{}` -/
  unsorted : Assoc Unit := []
  /-- `sortedCache *list.List` of `kv.Pair` (value `none` = nil = deleted marker) -/
  sorted : Assoc (Option Bytes) := []
  deriving Repr, DecidableEq

/-- `NewStore`. -/
def empty : CStore := {}

/-- `setCacheValue(key, value, deleted, dirty)` — the only mutator of `cache`. -/
def setCacheValue (c : CStore) (k : Bytes) (v : Option Bytes) (deleted dirty : Bool) : CStore :=
  { c with
    cache := Assoc.set c.cache k ⟨v, deleted, dirty⟩
    unsorted := if dirty then Assoc.set c.unsorted k () else c.unsorted }

section ops
variable {σ : Type} (O : KVOps σ)

/-- `Store.Get`: a miss reads the parent and remembers the answer as a clean entry. -/
def get (s : σ × CStore) (k : Bytes) : (σ × CStore) × Option Bytes :=
  match Assoc.get s.2.cache k with
  | none => let r := O.get s.1 k; ((r.1, setCacheValue s.2 k r.2 false false), r.2)
  | some cv => (s, cv.value)

/-- `Store.Has`: `Get(key) != nil`. -/
def has (s : σ × CStore) (k : Bytes) : (σ × CStore) × Bool :=
  let r := get O s k; (r.1, r.2.isSome)

/-- `Store.Set` (value non-nil: `AssertValidValue`). -/
def set (s : σ × CStore) (k v : Bytes) : σ × CStore :=
  (s.1, setCacheValue s.2 k (some v) false true)

/-- `Store.Delete`. -/
def del (s : σ × CStore) (k : Bytes) : σ × CStore :=
  (s.1, setCacheValue s.2 k none true true)

/-- One iteration of the loop in `Store.Write`. -/
def writeOne (par : σ) (kv : Bytes × CValue) : σ :=
  if kv.2.deleted then O.del par kv.1
  else match kv.2.value with
    | none => par
    | some v => O.set par kv.1 v

/-- `Store.Write`: the dirty keys in ascending order are applied to the parent, then all three
caches are reset. -/
def write (s : σ × CStore) : σ × CStore :=
  ((s.2.cache.filter (fun kv => kv.2.dirty)).foldl (writeOne O) s.1, empty)

end ops

/-! ### `dirtyItems` and the mem iterator -/

/-- The merge loop of `dirtyItems`: `u` = the freshly sorted in-domain dirty pairs, `s` = the
current `sortedCache`.  `-1`: insert before; `1`: advance; `0`: replace; leftovers are pushed back. -/
def mergeDirty : Assoc (Option Bytes) → Assoc (Option Bytes) → Assoc (Option Bytes)
  | [], s => s
  | u, [] => u
  | (uk, uv) :: u, (sk, sv) :: s =>
    if uk < sk then (uk, uv) :: mergeDirty u ((sk, sv) :: s)
    else if uk = sk then (uk, uv) :: mergeDirty u s
    else (sk, sv) :: mergeDirty ((uk, uv) :: u) s
termination_by u s => u.length + s.length

/-- `Store.dirtyItems(start, end)`: every key of `unsortedCache` inside the domain is removed
from it and merged, with its *current* cache value, into `sortedCache`. -/
def dirtyItems (c : CStore) (s e : Option Bytes) : CStore :=
  let moved : Assoc (Option Bytes) :=
    (c.unsorted.filter (fun p => inDomain p.1 s e)).map
      (fun p => (p.1, (Assoc.get c.cache p.1).bind (·.value)))
  { c with
    unsorted := c.unsorted.filter (fun p => !inDomain p.1 s e)
    sorted := mergeDirty moved c.sorted }

/-- The loop of `newMemIterator` with its `entered` flag: skip items before the domain, collect the
items inside, stop at the first item outside once entered. -/
def memItems (s e : Option Bytes) : Bool → Assoc (Option Bytes) → Assoc (Option Bytes)
  | _, [] => []
  | entered, it :: rest =>
    if !inDomain it.1 s e then (if entered then [] else memItems s e entered rest)
    else it :: memItems s e true rest

/-- `memIterator` drained: `items` read from the front (ascending) or from the back. -/
def memIter (s e : Option Bytes) (sorted : Assoc (Option Bytes)) (asc : Bool) : Assoc (Option Bytes) :=
  KV.order asc (memItems s e false sorted)

/-! ### The merge iterator

State: `p` = what the parent iterator still has to yield, `c` = what the cache (mem) iterator
still has to yield, both in iteration order.  A cache item with value `none` is a delete marker. -/

/-- `cacheMergeIterator.compare`: `bytes.Compare`, reversed when descending. -/
def compare (asc : Bool) (a b : Bytes) : Ordering :=
  if asc then Bytes.cmp a b else Bytes.cmp b a

/-- The guard `until == nil || iter.compare(key, until) < 0` of `skipCacheDeletes`. -/
def beforeUntil (asc : Bool) (k : Bytes) : Option Bytes → Bool
  | none => true
  | some u => compare asc k u == .lt

/-- `skipCacheDeletes(until)`: advance the cache iterator over delete markers whose key is
before `until` (no limit when `until` is nil). -/
def skipCacheDeletes (asc : Bool) (unt : Option Bytes) : Assoc (Option Bytes) → Assoc (Option Bytes)
  | [] => []
  | (k, v) :: c =>
    if v.isNone && beforeUntil asc k unt
    then skipCacheDeletes asc unt c else (k, v) :: c

theorem skipCacheDeletes_length (asc : Bool) (u : Option Bytes) (c : Assoc (Option Bytes)) :
    (skipCacheDeletes asc u c).length ≤ c.length := by
  induction c with
  | nil => simp [skipCacheDeletes]
  | cons a c ih =>
    obtain ⟨k, v⟩ := a
    unfold skipCacheDeletes
    split
    · exact Nat.le_succ_of_le ih
    · exact Nat.le_refl _

theorem cmp_gt_swap {a b : Bytes} (h : Bytes.cmp a b = .gt) : Bytes.cmp b a = .lt := by
  unfold Bytes.cmp at h ⊢
  by_cases h1 : a < b
  · simp [h1] at h
  · by_cases h2 : a = b
    · subst h2; simp [List.lt_irrefl] at h
    · have : b < a := by
        by_cases h3 : b < a
        · exact h3
        · exact absurd (List.le_antisymm (List.not_lt.mp h3) (List.not_lt.mp h1)) h2
      simp [this]

theorem compare_gt_swap {asc : Bool} {a b : Bytes} (h : compare asc a b = .gt) :
    compare asc b a = .lt := by
  unfold compare at h ⊢
  cases asc
  · simpa using cmp_gt_swap (by simpa using h)
  · simpa using cmp_gt_swap (by simpa using h)

set_option linter.unusedVariables false in
/-- `skipUntilExistsOrInvalid`: returns the advanced iterators and the validity verdict. -/
def skip (asc : Bool) (p : List (Bytes × Bytes)) (c : Assoc (Option Bytes)) :
    (List (Bytes × Bytes) × Assoc (Option Bytes)) × Bool :=
  match p, c with
  | [], c =>
    -- parent invalid: fast-forward the cache over its deletes
    (([], skipCacheDeletes asc none c), !(skipCacheDeletes asc none c).isEmpty)
  | p, [] => ((p, []), true)
  | (kp, vp) :: p', (kc, vc) :: c' =>
    match h : compare asc kp kc with
    | .lt => (((kp, vp) :: p', (kc, vc) :: c'), true)
    | .eq =>
      match vc with
      | none => skip asc p' c'
      | some _ => (((kp, vp) :: p', (kc, vc) :: c'), true)
    | .gt =>
      match hv : vc with
      | none => skip asc ((kp, vp) :: p') (skipCacheDeletes asc (some kp) ((kc, vc) :: c'))
      | some _ => (((kp, vp) :: p', (kc, vc) :: c'), true)
termination_by p.length + c.length
decreasing_by
  · simp only [List.length_cons]; omega
  · have h' := compare_gt_swap h
    subst hv
    have : skipCacheDeletes asc (some kp) ((kc, none) :: c') = skipCacheDeletes asc (some kp) c' := by
      simp [skipCacheDeletes, beforeUntil, h']
    rw [this]
    have := skipCacheDeletes_length asc (some kp) c'
    simp only [List.length_cons]; omega

/-- `Valid()`. -/
def valid (asc : Bool) (p : List (Bytes × Bytes)) (c : Assoc (Option Bytes)) : Bool :=
  (skip asc p c).2

/-- `Key()` and `Value()` (both first call `skipUntilExistsOrInvalid`); `none` where Go panics
(invalid iterator). -/
def cur (asc : Bool) (p : List (Bytes × Bytes)) (c : Assoc (Option Bytes)) : Option (Bytes × Bytes) :=
  let r := skip asc p c
  if !r.2 then none else
  match r.1.1, r.1.2 with
  | [], [] => none
  | [], (kc, vc) :: _ => some (kc, vc.getD [])
  | (kp, vp) :: _, [] => some (kp, vp)
  | (kp, vp) :: _, (kc, vc) :: _ =>
    match compare asc kp kc with
    | .lt => some (kp, vp)
    | .eq => some (kp, vc.getD [])
    | .gt => some (kc, vc.getD [])

/-- `Next()`: skip, then advance the parent, the cache or both. -/
def next (asc : Bool) (p : List (Bytes × Bytes)) (c : Assoc (Option Bytes)) :
    List (Bytes × Bytes) × Assoc (Option Bytes) :=
  let r := skip asc p c
  match r.1.1, r.1.2 with
  | [], c' => ([], c'.tail)
  | p', [] => (p'.tail, [])
  | (kp, vp) :: p', (kc, vc) :: c' =>
    match compare asc kp kc with
    | .lt => (p', (kc, vc) :: c')
    | .eq => (p', c')
    | .gt => ((kp, vp) :: p', c')

/-- The caller's loop `for ; it.Valid(); it.Next() { yield it.Key(), it.Value() }`, bounded by
`fuel` steps (every `Next` consumes at least one pending item, see `drain`). -/
def drainFuel (asc : Bool) : Nat → List (Bytes × Bytes) → Assoc (Option Bytes) → List (Bytes × Bytes)
  | 0, _, _ => []
  | fuel + 1, p, c =>
    if valid asc p c then
      match cur asc p c with
      | none => []
      | some kv => let n := next asc p c; kv :: drainFuel asc fuel n.1 n.2
    else []

/-- The merge iterator drained. -/
def drain (asc : Bool) (p : List (Bytes × Bytes)) (c : Assoc (Option Bytes)) : List (Bytes × Bytes) :=
  drainFuel asc (p.length + c.length + 1) p c

/-- `Store.iterator(start, end, ascending)`: parent iterator, `dirtyItems`, mem iterator over the
sorted cache, merge. -/
def iter {σ : Type} (O : KVOps σ) (s : σ × CStore) (asc : Bool) (st e : Option Bytes) :
    (σ × CStore) × List (Bytes × Bytes) :=
  let r := O.iter s.1 asc st e
  let c' := dirtyItems s.2 st e
  ((r.1, c'), drain asc r.2 (memIter st e c'.sorted asc))

/-- `cachekv.Store` over a parent implementing `KVOps`. -/
def ops {σ : Type} (O : KVOps σ) : KVOps (σ × CStore) where
  get := get O
  has := has O
  set := set
  del := del
  iter := iter O

/-! ### Specification side -/

/-- The pending changes of a cache store as a map `key ↦ some v` (set) / `none` (delete): its dirty
entries, ascending. -/
def pending (c : CStore) : Assoc (Option Bytes) :=
  (c.cache.filter (fun kv => kv.2.dirty)).map (fun kv => (kv.1, kv.2.value))

/-- Apply one pending change to a specification store. -/
def applyEntry (m : KV) (kv : Bytes × Option Bytes) : KV :=
  match kv.2 with
  | some v => Assoc.set m kv.1 v
  | none => Assoc.del m kv.1

/-- **Map overlay**: the parent's contents `m` shadowed by the pending sets and deletes `c`. -/
def overlay (m : KV) (c : Assoc (Option Bytes)) : KV := c.foldl applyEntry m

/-- Lookup in the overlay: a pending change wins, otherwise the parent answers. -/
def overlayGet (m : KV) (c : Assoc (Option Bytes)) (k : Bytes) : Option Bytes :=
  match Assoc.get c k with
  | some ov => ov
  | none => Assoc.get m k

end CacheKV
