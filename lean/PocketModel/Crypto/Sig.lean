import PocketModel.Basic.Bytes
/-!
# Signature / key logic of `/repo/crypto` (C39)

What is modelled (the code **as it is**):

* `SigScheme` — an abstract signature scheme (ed25519, secp256k1): key generation, `sign`, `verify`
  and the correctness law as a field.  Unforgeability is *not* expressible here.
* `PublicKeyMultiSignature.VerifyBytes` (`crypto/multisig.go`): decode the multi-signature, exact
  count, then positionally `keys[i].VerifyBytes(msg, sig[i])`; a nil (= empty) signature is "not
  found" ⇒ false; a nil interface member ⇒ the method call panics.
* `NewPublicKeyBz` (`crypto/keys.go`): dispatch by length 32 / 33 / otherwise amino
  `PublicKeyMultiSignature`.
* go-amino binary encoding of the three registered public-key types and of `MultiSignature`, and
  the go-amino *decoder* with the behaviour that is observable on malformed input (unpacked
  repeated field 1, zero length element ⇒ nil member, skipping of trailing unknown fields,
  disfix form of an interface prefix).
* `Address()`: `SumTruncated(sha256(raw))` for ed25519, `ripemd160(sha256(raw))` for secp256k1,
  `SumTruncated(sha256(amino bytes))` for multisig — hashes are parameters.
* `MultiSignature.AddSignatureByIndex`, `GetSignatureByIndex`, `getIndex`/`Equals`.
-/
namespace Crypto

/-- An abstract signature scheme; `correct` is the only law that is provable of a real scheme. -/
structure SigScheme where
  SK : Type
  PK : Type
  pub : SK → PK
  sign : SK → Bytes → Bytes
  verify : PK → Bytes → Bytes → Bool
  correct : ∀ sk m, verify (pub sk) m (sign sk m) = true

/-! ## Multisig verification (composition logic) -/

/-- One iteration of the loop: `GetSignatureByIndex(i)` found (non-nil) and
`keys[i].VerifyBytes(msg, sig_i)`. -/
def posOk {κ : Type} (vm : κ → Bytes → Bytes → Bool) (ks : List κ) (m : Bytes)
    (sigs : List Bytes) (i : Nat) : Bool :=
  match sigs[i]?, ks[i]? with
  | some s, some k => s != [] && vm k m s
  | _, _ => false

/-- The loop of `PublicKeyMultiSignature.VerifyBytes` with total member verifiers:
`numOfSigs == len(keys)` and for every index `GetSignatureByIndex(i)` is found (non-nil, i.e.
non-empty after amino decoding) and `keys[i].VerifyBytes(msg, sig_i)`. -/
def multisigVerify {κ : Type} (vm : κ → Bytes → Bytes → Bool) (ks : List κ) (m : Bytes)
    (sigs : List Bytes) : Bool :=
  sigs.length == ks.length && (List.range sigs.length).all (posOk vm ks m sigs)

/-- Sequential loop with early exit, nil members (`none`) and panicking member verifiers
(`vm … = none`): what the driver evaluates against the real code.  `none` = panic. -/
def verifyLoopP {κ : Type} (vm : κ → Bytes → Bytes → Option Bool) (m : Bytes) :
    List (Option κ) → List Bytes → Option Bool
  | [], _ => some true
  | _ :: _, [] => some false
  | k :: ks, s :: ss =>
    if s = [] then some false            -- GetSignatureByIndex: nil signature ⇒ not found
    else match k with
      | none => none                     -- nil interface: method call on nil panics
      | some k =>
        match vm k m s with
        | none => none
        | some false => some false
        | some true => verifyLoopP vm m ks ss

/-- `PublicKeyMultiSignature.VerifyBytes` after the multi-signature has been decoded. -/
def multisigVerifyP {κ : Type} (vm : κ → Bytes → Bytes → Option Bool) (ks : List (Option κ))
    (m : Bytes) (sigs : List Bytes) : Option Bool :=
  if sigs.length ≠ ks.length then some false else verifyLoopP vm m ks sigs

/-! ## MultiSignature assembly -/

/-- `MultiSignature.AddSignatureByIndex` (after fix 703b207): replace when the index exists,
otherwise pad with `[]byte{0}` for `i ∈ [len, index)` and append — the signature lands at `index`. -/
def addSignatureByIndex (sigs : List Bytes) (sig : Bytes) (index : Nat) : List Bytes :=
  if index < sigs.length then sigs.set index sig
  else sigs ++ List.replicate (index - sigs.length) [0] ++ [sig]

/-- `TxBuilder.SignMultisigTransaction` over a whole signing session: member `o` adds its signature
`sigOf o` at its own index (`AddSignature` → `getIndex` → `AddSignatureByIndex`), in the order
the members happen to sign. -/
def assemble (sigOf : Nat → Bytes) (order : List Nat) : List Bytes :=
  order.foldl (fun acc o => addSignatureByIndex acc (sigOf o) o) []

/-! ## Keys -/

/-- Public keys as the decoder can produce them.  `nil` is a nil interface member. -/
inductive Key where
  | ed (raw : Bytes)
  | secp (raw : Bytes)
  | multi (ks : List Key)
  | nil
  deriving Repr, BEq, Inhabited

def edSize : Nat := 32
def secpSize : Nat := 33

/-- amino prefix bytes `sha256(name)` (4 bytes after the 3 disambiguation bytes). -/
def pfxEd : Bytes := [0x9d, 0x54, 0x47, 0x74]
def pfxSecp : Bytes := [0xfb, 0x5c, 0xd0, 0x3c]
def pfxMulti : Bytes := [0xf3, 0x25, 0xb8, 0xad]
def pfxMsig : Bytes := [0xb2, 0xf5, 0x15, 0xf9]

/-- protobuf/amino unsigned varint. -/
def uvarint (n : Nat) : Bytes :=
  if h : n < 128 then [UInt8.ofNat n] else UInt8.ofNat (n % 128 + 128) :: uvarint (n / 128)
decreasing_by omega

/-- length-delimited bytes. -/
def lenPrefixed (b : Bytes) : Bytes := uvarint b.length ++ b

mutual
/-- `cdc.MarshalBinaryBare(key)`: prefix bytes, then the value. -/
def Key.amino : Key → Bytes
  | .ed raw => pfxEd ++ lenPrefixed raw
  | .secp raw => pfxSecp ++ lenPrefixed raw
  | .multi ks => pfxMulti ++ Key.aminoList ks
  | .nil => []
/-- repeated field 1 (`PublicKeys`), one length-delimited entry per member. -/
def Key.aminoList : List Key → Bytes
  | [] => []
  | k :: ks => 0x0a :: (lenPrefixed k.amino ++ Key.aminoList ks)
end

/-- `RawBytes()`: the array for the simple kinds, the amino bytes for multisig. -/
def Key.rawBytes : Key → Bytes
  | .ed raw => raw
  | .secp raw => raw
  | k => k.amino

/-- `MultiSignature.Marshal`. -/
def encodeMultiSig (sigs : List Bytes) : Bytes :=
  pfxMsig ++ (sigs.flatMap fun s => 0x0a :: lenPrefixed s)

/-! ### go-amino decoder -/

/-- `binary.Uvarint` without the 64-bit overflow check (an overflowing value is ≥ 2^64 here and is
rejected by every caller's own range/length check, exactly where Go reports the overflow). -/
def readUvarintAux : Bytes → Nat → Nat → Option (Nat × Bytes)
  | [], _, _ => none
  | b :: bs, sh, acc =>
    if b < 128 then some (acc + b.toNat * 2 ^ sh, bs)
    else readUvarintAux bs (sh + 7) (acc + (b.toNat - 128) * 2 ^ sh)

def readUvarint (bz : Bytes) : Option (Nat × Bytes) := readUvarintAux bz 0 0

/-- `DecodeByteSlice`. -/
def readByteSlice (bz : Bytes) : Option (Bytes × Bytes) :=
  match readUvarint bz with
  | none => none
  | some (c, r) => if r.length < c then none else some (r.take c, r.drop c)

/-- `decodeReflectBinaryByteArray` for `[n]byte`. -/
def readByteArray (n : Nat) (bz : Bytes) : Option (Bytes × Bytes) :=
  if bz.length < n then none else
  match readByteSlice bz with
  | none => none
  | some (b, r) => if b.length ≠ n then none else some (b, r)

/-- `binary.Uvarint` *with* Go's limits (at most 10 bytes, the 10th ≤ 1), used where a value is
skipped without any later range check (`consumeAny`, field keys of skipped fields). -/
def skipUvarint : Bytes → Nat → Option Bytes
  | [], _ => none
  | b :: bs, i =>
    if i ≥ 10 then none
    else if b < 128 then (if i = 9 ∧ b > 1 then none else some bs)
    else skipUvarint bs (i + 1)

/-- `consumeAny`. -/
def consumeAny (typ : Nat) (bz : Bytes) : Option Bytes :=
  if typ = 0 then skipUvarint bz 0
  else if typ = 1 then (if bz.length < 8 then none else some (bz.drop 8))
  else if typ = 2 then (readByteSlice bz).map (·.2)
  else if typ = 5 then (if bz.length < 4 then none else some (bz.drop 4))
  else none

/-- "Consume any remaining fields" of `decodeReflectBinaryStruct`: strictly increasing field
numbers, each value skipped.  Fuel = remaining length bound. -/
def skipFields : Nat → Nat → Bytes → Bool
  | _, _, [] => true
  | 0, _, _ => false
  | fuel + 1, last, bz =>
    match readUvarint bz with
    | none => false
    | some (v, r) =>
      if (skipUvarint bz 0).isNone then false
      else if v / 8 > 2 ^ 29 - 1 then false
      else if v / 8 ≤ last then false
      else match consumeAny (v % 8) r with
        | none => false
        | some r' => skipFields fuel (v / 8) r'

/-- amino disambiguation bytes (first three non-zero-led bytes of `sha256(name)`). -/
def disEd : Bytes := [0x88, 0x4a, 0xb4]
def disSecp : Bytes := [0x7f, 0xe1, 0x92]
def disMulti : Bytes := [0xa9, 0x48, 0x4a]

/-- `DecodeDisambPrefixBytes` + lookup among the implementers of `PublicKey`:
result = (prefix, rest). -/
def readPrefix (buf : Bytes) : Option (Bytes × Bytes) :=
  if buf.length < 4 then none
  else if buf.head? = some 0 then
    if buf.length < 8 then none
    else
      let dis := (buf.drop 1).take 3
      let pb := (buf.drop 4).take 4
      if (pb = pfxEd ∧ dis = disEd) ∨ (pb = pfxSecp ∧ dis = disSecp) ∨ (pb = pfxMulti ∧ dis = disMulti)
      then some (pb, buf.drop 8) else none
  else some (buf.take 4, buf.drop 4)

mutual
/-- `decodeReflectBinaryInterface` on the content of an element (prefix, concrete value, nothing
left over). -/
def decodeIface : Nat → Bytes → Option Key
  | 0, _ => none
  | fuel + 1, buf =>
    match readPrefix buf with
    | none => none
    | some (pb, rest) =>
      if pb = pfxEd then
        match readByteArray edSize rest with
        | some (raw, []) => some (.ed raw)
        | _ => none
      else if pb = pfxSecp then
        match readByteArray secpSize rest with
        | some (raw, []) => some (.secp raw)
        | _ => none
      else if pb = pfxMulti then (decodeStruct fuel rest).map .multi
      else none
/-- `decodeReflectBinaryStruct` of `PublicKeyMultiSignature`: the unpacked list, then skipping. -/
def decodeStruct : Nat → Bytes → Option (List Key)
  | 0, _ => none
  | fuel + 1, bz =>
    match decodeList fuel bz with
    | none => none
    | some (ks, rest) => if skipFields rest.length 0 rest then some ks else none
/-- `decodeReflectBinarySlice` (unpacked form, field number 1). -/
def decodeList : Nat → Bytes → Option (List Key × Bytes)
  | 0, _ => none
  | _ + 1, [] => some ([], [])
  | fuel + 1, b :: bs =>
    match readUvarint (b :: bs) with
    | none => none
    | some (v, r) =>
      if v / 8 > 2 ^ 29 - 1 then none
      else if v / 8 < 1 then none
      else if v / 8 > 1 then some ([], b :: bs)
      else if v % 8 ≠ 2 then none
      else if r.head? = some 0 then
        -- a zero length element is the default value: a nil interface member
        (decodeList fuel (r.drop 1)).map fun (ks, t) => (Key.nil :: ks, t)
      else
        match readByteSlice r with
        | none => none
        | some (buf, _) =>
          match decodeIface fuel buf with
          | none => none
          | some k =>
            -- go-amino counts `UvarintSize(len(buf))` (the *minimal* size) for the length
            -- prefix, whatever was read: after a non-minimal varint the loop resumes early.
            (decodeList fuel (r.drop ((uvarint buf.length).length + buf.length))).map
              fun (ks, t) => (k :: ks, t)
end

/-- `PubKeyFromBytes` = `UnmarshalBinaryBare` into the `PublicKey` interface. -/
def pubKeyFromBytes (b : Bytes) : Option Key := decodeIface (b.length + 1) b

/-- `PublicKeyMultiSignature{}.NewPublicKey(b)` = `UnmarshalBinaryBare` into the registered
concrete struct: the four prefix bytes, then the struct. -/
def newMultiKey (b : Bytes) : Option Key :=
  if b.length < 4 then none
  else if b.take 4 ≠ pfxMulti then none
  else (decodeStruct (b.length + 1) (b.drop 4)).map .multi

/-- `NewPublicKeyBz`: dispatch by length. -/
def newPublicKeyBz (b : Bytes) : Option Key :=
  if b.length = edSize then some (.ed b)
  else if b.length = secpSize then some (.secp b)
  else newMultiKey b

/-- Decoder of `MultiSignature` (`Sigs [][]byte`, unpacked list of byte slices; a zero length
element is nil = `[]`), then skipping of trailing fields. -/
def decodeSigList : Nat → Bytes → Option (List Bytes × Bytes)
  | 0, _ => none
  | _ + 1, [] => some ([], [])
  | fuel + 1, b :: bs =>
    match readUvarint (b :: bs) with
    | none => none
    | some (v, r) =>
      if v / 8 > 2 ^ 29 - 1 then none
      else if v / 8 < 1 then none
      else if v / 8 > 1 then some ([], b :: bs)
      else if v % 8 ≠ 2 then none
      else match readByteSlice r with
        | none => none
        | some (s, r') => (decodeSigList fuel r').map fun (ss, t) => (s :: ss, t)

def decodeMultiSig (b : Bytes) : Option (List Bytes) :=
  if b.length < 4 then none
  else if b.take 4 ≠ pfxMsig then none
  else match decodeSigList (b.length + 1) (b.drop 4) with
    | none => none
    | some (ss, rest) => if skipFields rest.length 0 rest then some ss else none

/-! ## Well-formed keys, addresses, equality -/

mutual
/-- Keys a signer can build: arrays of the right size, no nil member. -/
def Key.wf : Key → Bool
  | .ed raw => raw.length == edSize
  | .secp raw => raw.length == secpSize
  | .multi ks => Key.wfList ks
  | .nil => false
def Key.wfList : List Key → Bool
  | [] => true
  | k :: ks => k.wf && Key.wfList ks
end

/-- `Address()`; `H` = sha256, `R` = ripemd160 (parameters). `SumTruncated` keeps 20 bytes. -/
def Key.address (H R : Bytes → Bytes) : Key → Bytes
  | .ed raw => (H raw).take 20
  | .secp raw => R (H raw)
  | .multi ks => (H (Key.multi ks).amino).take 20
  | .nil => []

mutual
/-- `Equals`: the simple kinds type-assert the argument (panic = `none` on another kind);
multisig compares kind, length and members positionally. -/
def Key.equals : Key → Key → Option Bool
  | .ed a, .ed b => some (a == b)
  | .ed _, _ => none
  | .secp a, .secp b => some (a == b)
  | .secp _, _ => none
  | .multi as, .multi bs => if as.length ≠ bs.length then some false else Key.equalsList as bs
  | .multi _, _ => some false
  | .nil, _ => none
def Key.equalsList : List Key → List Key → Option Bool
  | a :: as, b :: bs =>
    match a.equals b with
    | none => none
    | some false => some false
    | some true => Key.equalsList as bs
  | _, _ => some true
end

end Crypto
