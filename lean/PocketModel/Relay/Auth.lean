import PocketModel.Basic.Bytes
import PocketModel.Num.BigDec
/-!
# Relay authorization (C35)

ONE decision function mirroring, in the order of the code,

* `x/pocketcore/types/service.go` `Relay.Validate` (payload, meta height allowance, request hash,
  hosted chain, session height argument, `PrevCtx`, application lookup at session height, max
  chains, allowance per node, evidence sealed / duplicate / over-service),
* `types/proof.go` `RelayProof.ValidateLocal` → `ValidateBasic` (formats, `AAT.Validate`, client
  signature) → servicer key = this node → `Validate` (height, chain ∈ app chains),
* `types/session.go` `Session.Validate`,
* `keeper/service.go` `HandleRelay` (session-height tolerance first; then `Validate`).

Everything the code reads besides the relay is a field of `Env`: the ledger snapshot (stub-able
keepers), node configuration, the evidence for the relay's header, and the cryptographic oracles
(signature verification of an abstract scheme, hashes, address derivation, the session-node
selection of C33).  Results are the error class (`codespace`, `code`) the code returns.
-/
namespace RelayAuth

structure AAT where
  version : String
  appPub : String
  clientPub : String
  appSig : String
  deriving Repr

structure Proof where
  entropy : Int
  sbh : Int                 -- SessionBlockHeight
  servicer : String         -- ServicerPubKey (hex)
  chain : String            -- Blockchain (hex network id)
  token : AAT
  sig : String              -- client signature (hex)
  requestHash : String
  deriving Repr

structure Relay where
  data : String
  path : String
  metaHeight : Int
  proof : Proof
  deriving Repr

/-- The application record as the apps keeper returns it — exactly the fields the validation
reads.  There is deliberately **no status / jailed field**: `Relay.Validate` never looks at
`GetStatus()` or `IsJailed()`, so an unstaking or jailed application that still has a record at the
session height is served like a staked one (run on the real code by the harness: alterations
`app-unstaking`, `app-jailed`). -/
structure App where
  pubRaw : String           -- `GetPublicKey().RawString()`
  chains : List String
  maxRelays : Int
  deriving Repr

structure Evidence where
  found : Bool
  n : Int                   -- NumOfProofs
  sealed_ : Bool
  has : Bool                -- bloom filter test of this proof's hash
  deriving Repr

/-- Ways a relay is not served. -/
inductive Fail where
  | err (space : String) (code : Nat)
  | panic                   -- Go runtime panic (recovered by the RPC server)
  | fatal                   -- `log.Fatalf`: the node process exits
  deriving Repr, DecidableEq

inductive Res where
  | ok (maxRelays : Int)
  | fail (f : Fail)
  deriving Repr, DecidableEq

structure Env where
  height : Int
  blockAllowance : Int
  sessionAllowance : Int
  bps : Int                                   -- BlocksPerSession
  hosted : List String
  prevCtxOk : Int → Bool
  /-- apps store at a height by the token's application key; `none` also when the key does not
  decode to a public key. -/
  appAt : Int → String → Option App
  enforceMaxChains : Bool
  maxChains : Int
  nodeCount : Int → Int
  evidence : Evidence
  nodeAddr : Bytes
  /-- address of a hex public key (`crypto.NewPublicKey` + `Address`) -/
  addrOf : String → Option Bytes
  /-- `Relay.RequestHashString()` -/
  requestHashOf : Relay → String
  /-- hash of the token without its signature / of the proof without its signature -/
  tokenHash : AAT → Bytes
  proofHash : Proof → Bytes
  /-- `PublicKey.VerifyBytes` of the (abstract) signature scheme, key given in hex -/
  verify : String → Bytes → Bytes → Bool
  /-- the servicer's session cache entry for this relay's header (filled by earlier relays, by
  `HandleDispatch` and by `HandleChallenge`), if any -/
  sessionCache : Option (List (Option Bytes))
  /-- what `NewSession` (C33) generates for the header, or its error -/
  sessionGen : Except (String × Nat) (List (Option Bytes))
  /-- `ctx.PrevCtx(sessionEnd)` works when the session is over -/
  sessionEndCtxOk : Bool

/-- `GetSession` hit, else `NewSession`: the session the validation works with.  It is validated
(`Session.Validate`: this servicer ∈ session nodes) on **every** relay, cached or not. -/
def Env.session (E : Env) : Except (String × Nat) (List (Option Bytes)) :=
  match E.sessionCache with
  | some nodes => .ok nodes
  | none => E.sessionGen

def hexDecode (s : String) : Option Bytes := Bytes.ofHexChars s.toList

def pc (code : Nat) : Fail := .err "pocketcore" code

/-- `PubKeyVerification`: hex, 32 bytes. -/
def pubKeyVerification (s : String) : Option Fail :=
  match hexDecode s with
  | none => some (pc 6)
  | some b => if b.length ≠ 32 then some (pc 42) else none

/-- `NetworkIdentifierVerification`: hex, non-empty, at most 4 bytes. -/
def networkIdVerification (s : String) : Option Fail :=
  match hexDecode s with
  | none => some (pc 52)
  | some b => if b.length = 0 then some (pc 23) else if b.length > 4 then some (pc 62) else none

/-- `HashVerification`: hex, non-empty, 32 bytes. -/
def hashVerification (s : String) : Option Fail :=
  match hexDecode s with
  | none => some (pc 52)
  | some b => if b.length = 0 then some (pc 23) else if b.length ≠ 32 then some (pc 62) else none

/-- `SignatureVerification(publicKeyHex, msg, sigHex)`; the message is a hash (always valid hex). -/
def signatureVerification (E : Env) (pub : String) (msg : Bytes) (sig : String) : Option Fail :=
  match hexDecode sig with
  | none => some (pc 39)
  | some sb =>
    if sb.length ≠ 64 then some (pc 38)
    else if (E.addrOf pub).isNone then some (pc 6)
    else if E.verify pub msg sb then none else some (pc 41)

def supportedVersions : List String := ["0.0.1"]

/-- `AAT.Validate` (any failure is wrapped into `InvalidTokenError`, code 4). -/
def tokenValid (E : Env) (t : AAT) : Bool :=
  t.version ≠ "" && supportedVersions.contains t.version &&
  t.appPub.length ≠ 0 && (pubKeyVerification t.appPub).isNone &&
  t.clientPub.length ≠ 0 && (pubKeyVerification t.clientPub).isNone &&
  (signatureVerification E t.appPub (E.tokenHash t) t.appSig).isNone

/-- `RelayProof.ValidateBasic`. -/
def validateBasic (E : Env) (p : Proof) : Option Fail :=
  if p.sbh < 1 then some (pc 60)
  else match pubKeyVerification p.servicer with
  | some e => some e
  | none =>
  match networkIdVerification p.chain with
  | some e => some e
  | none =>
  match hashVerification p.requestHash with
  | some e => some e
  | none =>
  if p.entropy < 0 then some (pc 29)
  else if !tokenValid E p.token then some (pc 4)
  else signatureVerification E p.token.clientPub (E.proofHash p) p.sig

/-- `RelayProof.ValidateLocal`. -/
def validateLocal (E : Env) (p : Proof) (appChains : List String) (sbh : Int) : Option Fail :=
  match validateBasic E p with
  | some e => some e
  | none =>
  match E.addrOf p.servicer with
  | none => some (pc 34)
  | some a =>
    if a ≠ E.nodeAddr then some (pc 34)
    else if p.sbh ≠ sbh then some (pc 60)
    else if !appChains.contains p.chain then some (pc 13)
    else none

/-- `Session.Validate`. -/
def sessionValidate (E : Env) (p : Proof) (app : App) (nodes : List (Option Bytes)) (count : Int) :
    Option Fail :=
  if p.chain.length = 0 then some (pc 18)
  else if p.sbh < 1 then some (pc 60)
  else match pubKeyVerification p.token.appPub with
  | some e => some e
  | none =>
  if app.pubRaw ≠ p.token.appPub then some (pc 61)
  else if !app.chains.contains p.chain then some (pc 13)
  else if (nodes.length : Int) < count then some (pc 17)
  else if nodes.any (·.isNone) then some (pc 64)
  else if !nodes.contains (some E.nodeAddr) then some (pc 14)
  else none

/-- `MaxPossibleRelays`: `maxRelays.ToDec().Quo(len(chains)).Quo(nodeCount).RoundInt()`;
`none` = division by zero panic. -/
def maxPossibleRelays (app : App) (count : Int) : Option Int := do
  let x ← BigDec.quo (BigDec.ofInt app.maxRelays) (BigDec.ofInt app.chains.length)
  let y ← BigDec.quo x (BigDec.ofInt count)
  pure (BigDec.roundInt y)

/-- two's-complement wrap of an `int64` computation -/
def wrap64 (x : Int) : Int := (x + 2 ^ 63) % 2 ^ 64 - 2 ^ 63

/-- `RelayMeta.Validate` exactly as the machine computes it (`int64` additions wrap):
`h + allowance < m || h - allowance > m`. -/
def metaOutOfSync64 (h allowance m : Int) : Bool :=
  decide (wrap64 (h + allowance) < m ∨ wrap64 (h - allowance) > m)

/-- The storeless head of `Relay.Validate`: payload, meta height allowance, request hash, hosted
chain, session height argument, `PrevCtx`. -/
def preChecks (E : Env) (r : Relay) (sbhArg : Int) : Option Fail :=
  if r.data = "" ∧ r.path = "" then some (pc 25)
  else if E.height + E.blockAllowance < r.metaHeight ∨ E.height - E.blockAllowance > r.metaHeight then some (pc 75)
  else if r.proof.requestHash ≠ E.requestHashOf r then some (pc 74)
  else if !E.hosted.contains r.proof.chain then some (pc 26)
  else if r.proof.sbh ≠ sbhArg then some (pc 60)
  else if !E.prevCtxOk sbhArg then some (.err "sdk" 1)
  else none

/-- `GetTotalProofs` (→ `GetEvidence`, which `log.Fatalf`s when nothing is stored and the allowance
is zero — unreachable from `validateApp` since fix 94ea242 — and seals an evidence that has reached
the allowance), `IsSealed`, `IsUniqueProof`, over-service. -/
def evidenceChecks (E : Env) (max : Int) : Option Fail :=
  if !E.evidence.found ∧ max = 0 then some .fatal
  else if E.evidence.sealed_ || (E.evidence.found && max ≠ 0 && E.evidence.n ≥ max) then some (pc 90)
  else if E.evidence.has then some (pc 37)
  else if E.evidence.n ≥ max then some (pc 71)
  else none

/-- Session from the cache or `NewSession` (with session rollover the end-of-session context is
fetched first; its failure is an internal error since fix b757cb3), then `Session.Validate`. -/
def sessionStage (E : Env) (p : Proof) (app : App) (count sbhArg : Int) : Option Fail :=
  if E.sessionCache.isNone ∧ E.height > sbhArg + E.bps - 1 ∧ !E.sessionEndCtxOk then some (.err "sdk" 1)
  else match E.session with
  | .error (sp, c) => some (.err sp c)
  | .ok nodes => sessionValidate E p app nodes count

/-- `Relay.Validate` after the application record has been found. -/
def validateApp (E : Env) (r : Relay) (sbhArg : Int) (app : App) : Res :=
  if E.enforceMaxChains ∧ (app.chains.length : Int) > E.maxChains then .fail (pc 91)
  else match maxPossibleRelays app (E.nodeCount sbhArg) with
  | none => .fail .panic
  | some max =>
    -- (fix 94ea242) an allowance of zero relays is refused before the evidence is consulted
    if max ≤ 0 then .fail (pc 71)
    else
    match evidenceChecks E max with
    | some e => .fail e
    | none =>
    match validateLocal E r.proof app.chains sbhArg with
    | some e => .fail e
    | none =>
    match sessionStage E r.proof app (E.nodeCount sbhArg) sbhArg with
    | some e => .fail e
    | none => .ok max

/-- `Relay.Validate(ctx, …, sessionBlockHeight, servicerNode)`. -/
def validate (E : Env) (r : Relay) (sbhArg : Int) : Res :=
  match preChecks E r sbhArg with
  | some e => .fail e
  | none =>
  match E.appAt sbhArg r.proof.token.appPub with
  | none => .fail (pc 45)
  | some app => validateApp E r sbhArg app

/-- `GetLatestSessionBlockHeight`. -/
def latestSessionHeight (height bps : Int) : Int :=
  if height % bps = 0 then height - bps + 1 else (height / bps) * bps + 1

/-- `IsProofSessionHeightWithinTolerance`. -/
def withinTolerance (E : Env) (sbh : Int) : Bool :=
  if sbh ≤ 0 then false
  -- (fix e007075) a session starts at the first block of a session period
  else if (sbh - 1) % E.bps ≠ 0 then false
  else
    let latest := latestSessionHeight E.height E.bps
    decide (latest - E.sessionAllowance * E.bps ≤ sbh ∧ sbh ≤ latest)

/-- `HandleRelay` up to the decision to serve: tolerance, then `Validate` with the proof's own
session height as argument. -/
def handleRelay (E : Env) (r : Relay) : Res :=
  if !withinTolerance E r.proof.sbh then .fail (pc 60) else validate E r r.proof.sbh

end RelayAuth
