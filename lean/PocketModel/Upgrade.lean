import PocketModel.Num.Elen
/-!
# Feature upgrades (`codec/codec.go`, `x/gov/keeper/subspace.go`, `app/app.go`)

* `SliceToMap`, `SliceToExistingMap`, `MapToSlice`, `CleanUpgradeFeatureSlice` — feature strings
  `"KEY:height"` ⇄ `map[string]int64`;
* `handleUpgradeAfterUpdate` (version upgrade vs `FEATURE` upgrade) and the older branch of
  `HandleUpgrade` used before the codec upgrade height;
* the process globals `codec.UpgradeHeight`, `codec.OldUpgradeHeight`, `codec.UpgradeFeatureMap`;
* the restart path of `NewPocketCoreApp` (restores the globals only `if upgrade.Height != 0`);
* the activation predicates `IsAfterNamedFeatureActivationHeight` & co.

Strings are byte lists (`sort.Strings` is bytewise).  A Go map is an association list with unique
keys; its iteration order is the list order and is an *oracle* — `MapToSlice` exposes it and
`sort.Strings` removes it again (proved).  A Go panic (`kv[1]` on an entry without `:`) is `none`.
-/
namespace Upgrade

def colon : UInt8 := 58
def minus : UInt8 := 45
def plus : UInt8 := 43

def maxInt64 : Int := 9223372036854775807
def minInt64 : Int := -9223372036854775808

/-! ## `strconv.ParseInt(s, 10, 64)` and `%d` -/

def isDigit (b : UInt8) : Bool := decide (48 ≤ b.toNat) && decide (b.toNat ≤ 57)

/-- Value of a string of decimal digits (most significant first). -/
def digitsVal (ds : Bytes) : Nat := ds.foldl (fun acc b => acc * 10 + (b.toNat - 48)) 0

/-- `i, _ := strconv.ParseInt(s, 10, 64)`: the value on success, `0` on a syntax error (empty,
sign only, a non-digit), the nearest bound on a range error. -/
def parseInt64 (s : Bytes) : Int :=
  let (neg, ds) := match s with
    | b :: rest => if b = minus then (true, rest) else if b = plus then (false, rest) else (false, s)
    | [] => (false, [])
  if ds.isEmpty || !ds.all isDigit then 0
  else
    let v : Int := (digitsVal ds : Nat)
    if neg then (if -v < minInt64 then minInt64 else -v) else (if v > maxInt64 then maxInt64 else v)

/-- `fmt.Sprintf("%d", v)`. -/
def itoa (v : Int) : Bytes :=
  if v < 0 then minus :: Elen.dec v.natAbs else Elen.dec v.natAbs

/-! ## Feature strings and the feature map -/

/-- `kv := strings.Split(v, ":")` then `kv[0]`, `kv[1]`: `none` when there is no `:` (index out of
range panic); text after a second `:` is ignored. -/
def splitKV (s : Bytes) : Option (Bytes × Bytes) :=
  match s.dropWhile (· != colon) with
  | [] => none
  | _ :: r => some (s.takeWhile (· != colon), r.takeWhile (· != colon))

/-- One parsed feature entry. -/
def parseEntry (s : Bytes) : Option (Bytes × Int) := (splitKV s).map fun kv => (kv.1, parseInt64 kv.2)

/-- `map[string]int64` as an association list with unique keys (order = iteration order). -/
abbrev FMap := List (Bytes × Int)

/-- `m[k] = v`. -/
def FMap.set : FMap → Bytes → Int → FMap
  | [], k, v => [(k, v)]
  | (k', v') :: rest, k, v => if k = k' then (k, v) :: rest else (k', v') :: FMap.set rest k v

/-- `m[k]` (zero value when absent). -/
def FMap.get : FMap → Bytes → Int
  | [], _ => 0
  | (k', v') :: rest, k => if k = k' then v' else FMap.get rest k

def FMap.contains : FMap → Bytes → Bool
  | [], _ => false
  | (k', _) :: rest, k => k = k' || FMap.contains rest k

/-- `SliceToExistingMap(arr, m)`: copy of `m`, then every entry of `arr` in order (later wins). -/
def sliceToExistingMap : List Bytes → FMap → Option FMap
  | [], m => some m
  | s :: rest, m =>
    match parseEntry s with
    | none => none
    | some (k, v) => sliceToExistingMap rest (m.set k v)

/-- `SliceToMap(arr)`. -/
def sliceToMap (arr : List Bytes) : Option FMap := sliceToExistingMap arr []

/-- `fmt.Sprintf("%s:%d", k, v)`. -/
def renderEntry (e : Bytes × Int) : Bytes := e.1 ++ colon :: itoa e.2

/-- `MapToSlice(m)`: one string per entry, in map iteration order. -/
def mapToSlice (m : FMap) : List Bytes := m.map renderEntry

def insertSorted (x : Bytes) : List Bytes → List Bytes
  | [] => [x]
  | y :: ys => if x ≤ y then x :: y :: ys else y :: insertSorted x ys

/-- `sort.Strings`. -/
def sortStrings (l : List Bytes) : List Bytes := l.foldr insertSorted []

/-- `CleanUpgradeFeatureSlice(arr)`. -/
def clean (arr : List Bytes) : Option (List Bytes) := (sliceToMap arr).map fun m => sortStrings (mapToSlice m)

/-! ## Stored parameter, process globals, handlers -/

/-- `govtypes.Upgrade`. -/
structure Upgrade where
  height : Int := 0
  version : Bytes := []
  oldUpgradeHeight : Int := 0
  features : List Bytes := []
deriving DecidableEq, Repr

/-- `codec.UpgradeHeight`, `codec.OldUpgradeHeight`, `codec.UpgradeFeatureMap` of one process. -/
structure Globals where
  upgradeHeight : Int := maxInt64
  oldUpgradeHeight : Int := 0
  featureMap : FMap := []
deriving Repr

/-- `"FEATURE"`. -/
def featureKey : Bytes := [70, 69, 65, 84, 85, 82, 69]

def upgradeCodecHeight : Int := 30024

/-- `codec.GetCodecUpgradeHeight()`. -/
def getCodecUpgradeHeight (g : Globals) : Int :=
  if g.upgradeHeight ≥ upgradeCodecHeight then upgradeCodecHeight
  else if g.oldUpgradeHeight ≠ 0 ∧ g.oldUpgradeHeight < g.upgradeHeight then g.oldUpgradeHeight
  else g.upgradeHeight

/-- `ctx.IsAfterUpgradeHeight()`. -/
def isAfterUpgradeHeight (g : Globals) (h : Int) : Bool := decide (h ≥ getCodecUpgradeHeight g)

/-- `handleUpgradeAfterUpdate` (ACL check passed): new stored parameter and new globals; `none` when
a feature string without `:` makes `CleanUpgradeFeatureSlice` panic (the tx fails, nothing changes). -/
def handleUpgradeAfterUpdate (stored : Upgrade) (g : Globals) (msg : Upgrade) : Option (Upgrade × Globals) :=
  match clean (stored.features ++ msg.features) with
  | none => none
  | some fs =>
    let new : Upgrade :=
      if msg.height ≠ 1 ∧ msg.version ≠ featureKey then
        { msg with oldUpgradeHeight := stored.height, features := fs }
      else
        { height := stored.height, version := stored.version, oldUpgradeHeight := stored.oldUpgradeHeight,
          features := fs }
    match sliceToExistingMap new.features g.featureMap with
    | none => none
    | some fm => some (new, { upgradeHeight := new.height, oldUpgradeHeight := new.oldUpgradeHeight, featureMap := fm })

/-- The `else` branch of `HandleUpgrade` (before the codec upgrade height): the message is stored
as it is and only `codec.UpgradeHeight` follows. -/
def handleUpgradeBefore (g : Globals) (msg : Upgrade) : Upgrade × Globals :=
  (msg, { g with upgradeHeight := msg.height })

/-- `Keeper.HandleUpgrade` at block height `h`. -/
def handleUpgrade (stored : Upgrade) (g : Globals) (h : Int) (msg : Upgrade) : Option (Upgrade × Globals) :=
  if isAfterUpgradeHeight g h then handleUpgradeAfterUpdate stored g msg
  else some (handleUpgradeBefore g msg)

/-- The restore block of `NewPocketCoreApp` **as coded**, in a fresh process (globals at their
start-up values): everything is restored only `if upgrade.Height != 0`.  `none`: malformed stored
feature (panic at boot). -/
def restart (stored : Upgrade) : Option Globals :=
  if stored.height ≠ 0 then
    (sliceToExistingMap stored.features []).map fun fm =>
      { upgradeHeight := stored.height, oldUpgradeHeight := stored.oldUpgradeHeight, featureMap := fm }
  else some {}

/-- The restore block after `fixes/C37-restart-feature-map.patch`: the two heights as before, the
feature map always. -/
def restartFixed (stored : Upgrade) : Option Globals :=
  (sliceToExistingMap stored.features []).map fun fm =>
    if stored.height ≠ 0 then
      { upgradeHeight := stored.height, oldUpgradeHeight := stored.oldUpgradeHeight, featureMap := fm }
    else { featureMap := fm }

/-! ## Activation predicates -/

/-- `IsAfterNamedFeatureActivationHeight(height, key)`. -/
def isAfterNamed (g : Globals) (h : Int) (key : Bytes) : Bool :=
  g.featureMap.get key != 0 && decide (h ≥ g.featureMap.get key)

/-- `IsOnNamedFeatureActivationHeight(height, key)`. -/
def isOnNamed (g : Globals) (h : Int) (key : Bytes) : Bool :=
  g.featureMap.get key != 0 && decide (h = g.featureMap.get key)

/-- Two's-complement wrap-around of `int64` arithmetic. -/
def wrap64 (x : Int) : Int := (x + 9223372036854775808) % 18446744073709551616 - 9223372036854775808

/-- `IsOnNamedFeatureActivationHeightWithTolerance` (`upgradeHeight ± tolerance` in `int64`: wraps
for heights within `tolerance` of the `int64` bounds). -/
def isOnNamedWithTolerance (g : Globals) (h : Int) (key : Bytes) (tol : Int) : Bool :=
  let u := g.featureMap.get key
  if u = 0 then false else decide (h ≥ wrap64 (u - tol)) && decide (h ≤ wrap64 (u + tol))

/-- `IsAfterNonCustodialUpgrade` and the other per-feature predicates: the named predicate
`|| TestMode <= -3`. -/
def isAfterFeature (testMode : Int) (g : Globals) (h : Int) (key : Bytes) : Bool :=
  isAfterNamed g h key || decide (testMode ≤ -3)

end Upgrade
