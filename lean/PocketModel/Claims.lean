import PocketModel.Session
/-!
# Claim window and proof-leaf selection (`x/pocketcore/keeper/claim.go`, `proof.go`, `types/context.go`)

Heights are Go `int64`; the model uses `Int` (no overflow is reachable for realistic heights).

* `ValidateClaim`: `ctx.BlockHeight() <= SessionBlockHeight + BlocksPerSession(sessionCtx) - 1` ⇒
  `InvalidBlockHeightError`; later `ClaimIsMature(ctx, SessionBlockHeight)` ⇒
  `ExpiredProofsSubmissionError`.
* `ClaimIsMature(ctx, S) = ctx.BlockHeight() > ClaimSubmissionWindow(ctx) * BlocksPerSession(ctx) + S`
  — parameters read at the **current** context.
* `getPseudorandomIndex`: `proofHeight = S + ClaimSubmissionWindow(sessionCtx) * BlocksPerSession(sessionCtx)`
  — parameters read at the **session** context; `ctx.GetPrevBlockHash(proofHeight)` is
  `header(proofHeight).LastBlockId.Hash`, i.e. the hash **of block `proofHeight - 1`**.
-/
namespace Claims

/-- The two parameters the height logic reads. -/
structure Params where
  /-- `pos/BlocksPerSession`. -/
  blocksPerSession : Int
  /-- `pocketcore/ClaimSubmissionWindow`. -/
  window : Int
deriving DecidableEq, Repr

/-- `sessionEndHeight` in `ValidateClaim`. -/
def sessionEndHeight (ps : Params) (S : Int) : Int := S + ps.blocksPerSession - 1

/-- `Keeper.ClaimIsMature(ctx, S)` at `ctx.BlockHeight() = H` with the current parameters `pc`. -/
def claimIsMature (pc : Params) (H S : Int) : Bool := decide (H > pc.window * pc.blocksPerSession + S)

inductive HeightCheck where
  | early    -- `NewInvalidBlockHeightError`: the session has not ended
  | expired  -- `NewExpiredProofsSubmissionError`: the claim is already mature
  | ok
deriving DecidableEq, Repr

/-- The two height checks of `ValidateClaim` in their order (`ps`: parameters at the session context,
`pc`: at the current context). -/
def claimHeightCheck (ps pc : Params) (H S : Int) : HeightCheck :=
  if H ≤ sessionEndHeight ps S then .early
  else if claimIsMature pc H S then .expired
  else .ok

/-- The network accepts a claim for session `S` in block `H` as far as heights are concerned. -/
def claimAccepted (ps pc : Params) (H S : Int) : Bool := claimHeightCheck ps pc H S = .ok

/-- `proofHeight` in `getPseudorandomIndex`. -/
def proofHeight (ps : Params) (S : Int) : Int := S + ps.window * ps.blocksPerSession

/-- The block whose hash seeds the leaf selection: `GetPrevBlockHash(proofHeight)` returns
`LastBlockId.Hash` of header `proofHeight`, the hash of the block before it. -/
def entropyBlock (ps : Params) (S : Int) : Int := proofHeight ps S - 1

/-- What the author of a transaction included in block `H` can have read: blocks below `H`. -/
def knownAt (H blk : Int) : Bool := decide (blk < H)

/-! ## Leaf selection -/

def ascii (s : String) : Bytes := s.toUTF8.toList

/-- `json.Marshal(pseudorandomGenerator{BlockHash, Header})` with both fields hex strings (given here
as their ASCII bytes). -/
def seed (blockHashHex headerHashHex : Bytes) : Bytes :=
  ascii "{\"BlockHash\":\"" ++ blockHashHex ++ ascii "\",\"Header\":\"" ++ headerHashHex ++ ascii "\"}"

/-- `getPseudorandomIndex`: `PseudorandomSelection(totalRelays, Hash(seed))`. -/
def pseudorandomIndex (Hash : Bytes → Bytes) (totalRelays : Nat) (blockHashHex headerHashHex : Bytes) : Nat :=
  Session.pseudorandomSelection totalRelays (Hash (seed blockHashHex headerHashHex))

end Claims
