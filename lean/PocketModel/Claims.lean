import PocketModel.Session
/-!
# Claim window and proof-leaf selection (`x/pocketcore/keeper/claim.go`, `proof.go`, `types/context.go`)

Heights are Go `int64`; the model uses `Int` (no overflow is reachable for realistic heights).

* `ValidateClaim`: `ctx.BlockHeight() <= SessionBlockHeight + BlocksPerSession(sessionCtx) - 1` ⇒
  `InvalidBlockHeightError`; later `ClaimIsMature(ctx, SessionBlockHeight)` ⇒
  `ExpiredProofsSubmissionError`.
* `ClaimIsMature(ctx, S) = ctx.BlockHeight() > ClaimSubmissionWindow(ctx) * BlocksPerSession(ctx) + S`
  — parameters read at the **current** context.
* `getPseudorandomIndex`: `proofHeight = S + ClaimSubmissionWindow(sessionCtx) * BlocksPerSession(sessionCtx)`
  — parameters read at the **session** context; `ctx.GetPrevBlockHash(proofHeight)` is
  `header(proofHeight).LastBlockId.Hash`, i.e. the hash **of block `proofHeight - 1`**.
-/
namespace Claims

/-- The two parameters the height logic reads. -/
structure Params where
  /-- `pos/BlocksPerSession`. -/
  blocksPerSession : Int
  /-- `pocketcore/ClaimSubmissionWindow`. -/
  window : Int
deriving DecidableEq, Repr

/-- `sessionEndHeight` in `ValidateClaim`. -/
def sessionEndHeight (ps : Params) (S : Int) : Int := S + ps.blocksPerSession - 1

/-- `Keeper.ClaimIsMature(ctx, S)` at `ctx.BlockHeight() = H` with the current parameters `pc`. -/
def claimIsMature (pc : Params) (H S : Int) : Bool := decide (H > pc.window * pc.blocksPerSession + S)

inductive HeightCheck where
  | early    -- `NewInvalidBlockHeightError`: the session has not ended
  | expired  -- `NewExpiredProofsSubmissionError`: the claim is already mature
  | ok
deriving DecidableEq, Repr

/-- The two height checks of `ValidateClaim` in their order (`ps`: parameters at the session context,
`pc`: at the current context). -/
def claimHeightCheck (ps pc : Params) (H S : Int) : HeightCheck :=
  if H ≤ sessionEndHeight ps S then .early
  else if claimIsMature pc H S then .expired
  else .ok

/-- The network accepts a claim for session `S` in block `H` as far as heights are concerned. -/
def claimAccepted (ps pc : Params) (H S : Int) : Bool := claimHeightCheck ps pc H S = .ok

/-- `proofHeight` in `getPseudorandomIndex`. -/
def proofHeight (ps : Params) (S : Int) : Int := S + ps.window * ps.blocksPerSession

/-- The block whose hash seeds the leaf selection: `GetPrevBlockHash(proofHeight)` returns
`LastBlockId.Hash` of header `proofHeight`, the hash of the block before it. -/
def entropyBlock (ps : Params) (S : Int) : Int := proofHeight ps S - 1

/-- What the author of a transaction included in block `H` can have read: blocks below `H`. -/
def knownAt (H blk : Int) : Bool := decide (blk < H)

/-! ## `Context.GetPrevBlockHash` (types/context.go) -/

/-- Where `GetPrevBlockHash(h)` takes its answer from. -/
inductive HashSource where
  | header    -- `h == c.BlockHeight()`: the header of the block being processed
  | cache     -- the cached context of height `h`
  | store     -- the block meta of height `h` in the block store
  | notFound  -- `block at height not found`
deriving DecidableEq, Repr

/-- `Context.GetPrevBlockHash(h)` at context height `ctxH`; `cached x` / `stored x`: the context
cache / the block store has an entry for height `x`.  In every case the value is the `LastBlockId`
hash of header `h` (the `ConsensusHash` when that is nil), i.e. the hash of block `h − 1`. -/
def prevBlockHashSource (ctxH h : Int) (cached stored : Int → Bool) : HashSource :=
  if h = ctxH then .header
  else if cached h then .cache
  else if stored h then .store
  else .notFound

/-- While block `ctxH` is being processed only lower heights can be cached or stored. -/
def HonestWorld (ctxH : Int) (cached stored : Int → Bool) : Prop :=
  (∀ x, cached x = true → x < ctxH) ∧ (∀ x, stored x = true → x < ctxH)

/-- `getPseudorandomIndex` at context height `H`: where the selecting hash comes from. -/
def indexSource (ps : Params) (H S : Int) (cached stored : Int → Bool) : HashSource :=
  prevBlockHashSource H (proofHeight ps S) cached stored

/-! ## Leaf selection -/

def ascii (s : String) : Bytes := s.toUTF8.toList

/-- `json.Marshal(pseudorandomGenerator{BlockHash, Header})` with both fields hex strings (given here
as their ASCII bytes). -/
def seed (blockHashHex headerHashHex : Bytes) : Bytes :=
  ascii "{\"BlockHash\":\"" ++ blockHashHex ++ ascii "\",\"Header\":\"" ++ headerHashHex ++ ascii "\"}"

/-- `getPseudorandomIndex`: `PseudorandomSelection(totalRelays, Hash(seed))`. -/
def pseudorandomIndex (Hash : Bytes → Bytes) (totalRelays : Nat) (blockHashHex headerHashHex : Bytes) : Nat :=
  Session.pseudorandomSelection totalRelays (Hash (seed blockHashHex headerHashHex))

end Claims
